#!/bin/sh
# MANIFEST.setup_cmd: make hypothesis importable for /venv/bin/python (offline) and self-test the harness.
DIR=$(cd "$(dirname "$0")" && pwd)
cd "$DIR" || exit 2
PY=/venv/bin/python
export PYTHONDONTWRITEBYTECODE=1 PYTHONWARNINGS=ignore
if ! PYTHONPATH="$DIR/.deps" "$PY" -c "import hypothesis" 2>/dev/null; then
  mkdir -p "$DIR/.deps"
  "$PY" -m pip install --quiet --no-index --find-links /opt/veriftools/wheels --target "$DIR/.deps" hypothesis || exit 2
fi
mkdir -p "$DIR/evidence" "$DIR/replays"
PYTHONPATH="$DIR/.deps:/repo/src" "$PY" -W ignore "$DIR/pbt/selftest.py" || exit 2
echo "setup ok"

#!/usr/bin/env python3
"""Evaluate an independently written property-breaking change (a "seeded" change) and file it under /verif/seeded/<id>/.

usage: tools/seeded.py <ID> <dir with patch.diff, demo.py[, notes.md]> [--checks C02,C08] [--tier quick] [--name N]

Steps (all on a scratch copy of /repo outside /repo and /verif; /repo itself is never modified):
  1. copy /repo (src + tests), apply patch.diff                       -> must apply
  2. run the repository's unedited test suite on the copy             -> must pass (else the change is not realistic)
  3. run demo.py on the copy -> must fail; on /repo -> must pass      (the demonstration is genuine)
  4. run ./check <ID> <tier> (and any extra checks) against the copy  -> expected: exit 1 with a VIOLATION line
Writes seeded/<name>/{patch.diff, demo.py, notes.md, meta.json}.
"""
import argparse
import json
import os
import shutil
import subprocess
import sys
import tempfile

VERIF = os.path.dirname(os.path.dirname(os.path.abspath(__file__)))


def sh(cmd, **kw):
    return subprocess.run(cmd, stdout=subprocess.PIPE, stderr=subprocess.STDOUT, text=True, **kw)


def main():
    ap = argparse.ArgumentParser()
    ap.add_argument('prop')
    ap.add_argument('src')
    ap.add_argument('--checks', default='')
    ap.add_argument('--tier', default='quick')
    ap.add_argument('--name', default='')
    ap.add_argument('--seed', default='1')
    a = ap.parse_args()
    name = a.name or a.prop
    dest = os.path.join(VERIF, 'seeded', name)
    os.makedirs(dest, exist_ok=True)
    for f in ('patch.diff', 'demo.py', 'notes.md'):
        if os.path.exists(os.path.join(a.src, f)) and os.path.abspath(a.src) != os.path.abspath(dest):
            shutil.copy(os.path.join(a.src, f), os.path.join(dest, f))
    meta = {'property': a.prop, 'ran': []}
    d = tempfile.mkdtemp(prefix='pregex_seed_')
    try:
        shutil.copytree('/repo/src', os.path.join(d, 'src'))
        shutil.copytree('/repo/tests', os.path.join(d, 'tests'))
        r = sh(['patch', '-p1', '-d', d, '--no-backup-if-mismatch', '-i', os.path.join(dest, 'patch.diff')])
        meta['patch_applies'] = r.returncode == 0
        meta['ran'].append('patch -p1 -d <copy> -i patch.diff')
        if r.returncode != 0:
            meta['error'] = r.stdout[-500:]
            return finish(dest, meta)
        env = dict(os.environ, PYTHONPATH=os.path.join(d, 'src'), PYTHONDONTWRITEBYTECODE='1', PYTHONWARNINGS='ignore')
        r = sh(['/venv/bin/python', '-m', 'pytest', '-q', '-p', 'no:cacheprovider', os.path.join(d, 'tests')], env=env, cwd=d)
        meta['suite_with_change'] = r.stdout.strip().splitlines()[-1] if r.stdout.strip() else ''
        meta['suite_passes_with_change'] = r.returncode == 0
        meta['ran'].append('PYTHONPATH=<copy>/src /venv/bin/python -m pytest -q <copy>/tests')
        r = sh(['/venv/bin/python', '-W', 'ignore', os.path.join(dest, 'demo.py')], env=env, cwd=d)
        meta['demo_with_change'] = {'exit': r.returncode, 'tail': r.stdout.strip()[-400:]}
        env0 = dict(env, PYTHONPATH='/repo/src')
        r = sh(['/venv/bin/python', '-W', 'ignore', os.path.join(dest, 'demo.py')], env=env0, cwd=d)
        meta['demo_without_change'] = {'exit': r.returncode, 'tail': r.stdout.strip()[-200:]}
        meta['ran'].append('PYTHONPATH=<copy>/src /venv/bin/python demo.py   and   PYTHONPATH=/repo/src /venv/bin/python demo.py')
        meta['genuine'] = bool(meta['suite_passes_with_change'] and meta['demo_with_change']['exit'] != 0
                               and meta['demo_without_change']['exit'] == 0)
        checks = [a.prop] + [c for c in a.checks.split(',') if c and c != a.prop]
        meta['checks'] = {}
        for c in checks:
            envc = dict(os.environ, VERIF_REPO_SRC=os.path.join(d, 'src'), VERIF_SEED=a.seed, VERIF_NO_EVIDENCE='1')
            r = sh([os.path.join(VERIF, 'check'), c, a.tier], env=envc, cwd=VERIF)
            lines = [ln for ln in r.stdout.splitlines() if ln.startswith(('VIOLATION', '  kind', '  regression'))]
            meta['checks'][c] = {'tier': a.tier, 'exit': r.returncode, 'detected': r.returncode == 1, 'lines': [ln[:400] for ln in lines[:4]]}
            meta['ran'].append(f'VERIF_REPO_SRC=<copy>/src ./check {c} {a.tier}')
        return finish(dest, meta)
    finally:
        shutil.rmtree(d, ignore_errors=True)


def finish(dest, meta):
    old = {}
    mp = os.path.join(dest, 'meta.json')
    if os.path.exists(mp):
        old = json.load(open(mp))
    for k in ('needs_to_manifest', 'breaks', 'author'):
        if k in old and k not in meta:
            meta[k] = old[k]
    if 'checks' in old:
        merged = dict(old['checks'])
        merged.update(meta.get('checks', {}))
        meta['checks'] = merged
    json.dump(meta, open(mp, 'w'), indent=1)
    print(json.dumps({k: v for k, v in meta.items() if k != 'ran'}, indent=1)[:1800])
    return 0


if __name__ == '__main__':
    sys.exit(main())

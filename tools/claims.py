# Executed by gen_manifest.py. Every property without a registered check is listed as not (yet) claimed.
PENDING = 'check not built yet in this session (work in progress; see DESIGN.md section 7 for the order of work)'
for _p in ALL:
    NOT_APPLICABLE[_p] = PENDING

claim('C02', 'property-based differential testing against a fully parenthesised reference regex (Hypothesis)',
      'Generated expression trees (all operators, three spellings, metacharacter-heavy literals) are compared on targeted texts '
      'with the fully parenthesised composition of the operands\' own texts, executed by the same re engine; failures are shrunk '
      'to minimal expressions. Sampling, not exhaustion: establishes absence of mis-grouping only on the explored trees/texts.',
      'trusts Python re and the transparency of (?:...); leaves\' own texts are taken as given (C01/C06/C07 check them)',
      'DESIGN.md section 5 C02')
claim('C14', 'property-based round-trip/differential testing of is_path methods against text-mode reads and re spans (Hypothesis)',
      'Every public method with is_path (found by introspection) is run on a generated UTF-8 file and on its text and compared; '
      'context windows are recomputed from re.finditer spans; invalid window sizes must raise the documented exceptions.',
      'trusts re.finditer spans on str(p) (C11 checks the matching methods themselves) and Python text-mode decoding',
      'DESIGN.md section 5 C14')

# Executed by gen_manifest.py. Every property without a registered check is listed as not (yet) claimed.
PENDING = 'check not built yet in this session (work in progress; see DESIGN.md section 7 for the order of work)'
for _p in ALL:
    NOT_APPLICABLE[_p] = PENDING

claim('C02', 'property-based differential testing against a fully parenthesised reference regex (Hypothesis)',
      'Generated expression trees (all operators, three spellings, metacharacter-heavy literals) are compared on targeted texts '
      'with the fully parenthesised composition of the operands\' own texts, executed by the same re engine; failures are shrunk '
      'to minimal expressions. Sampling, not exhaustion: establishes absence of mis-grouping only on the explored trees/texts.',
      'trusts Python re and the transparency of (?:...); leaves\' own texts are taken as given (C01/C06/C07 check them)',
      'DESIGN.md section 5 C02')
claim('C14', 'property-based round-trip/differential testing of is_path methods against text-mode reads and re spans (Hypothesis)',
      'Every public method with is_path (found by introspection) is run on a generated UTF-8 file and on its text and compared; '
      'context windows are recomputed from re.finditer spans; invalid window sizes must raise the documented exceptions.',
      'trusts re.finditer spans on str(p) (C11 checks the matching methods themselves) and Python text-mode decoding',
      'DESIGN.md section 5 C14')

claim('C03', 'property-based totality testing of the whole public API surface and of expression trees (Hypothesis, introspected targets, per-shard hash seeds)',
      'Every public constructor / pattern-building method (found by introspection, unknown parameters are a harness error) is called with '
      'documented kinds of valid and invalid arguments; DSL expression trees and class-algebra expressions likewise. The result must be one '
      'of pregex\'s own exceptions or a Pregex that compiles under M|S and whose get_pattern() is printable and equivalent.',
      'only argument kinds the documentation describes are generated; Backreference/Conditional exempt from stand-alone compilation; 16-64 hash seeds sampled',
      'DESIGN.md section 5 C03')
claim('C06', 'property-based testing with a whole-code-point-range membership oracle (Hypothesis + complete enumeration of named classes and character pairs)',
      'The set matched by each constructed class is measured over all 1,114,112 code points (scan, not sample) and compared with the interval-set '
      'model of the constructor call; named classes and tokens and all ordered pairs of a 24-character metacharacter alphabet are enumerated '
      'completely; invalid arguments must raise the documented exception. Each shard runs under its own PYTHONHASHSEED.',
      'Unicode-only members of \\d \\s \\w are masked as the property states; name-only alphabets use (must, may) bounds; re is the membership oracle',
      'DESIGN.md section 5 C06')
claim('C07', 'property-based model-based testing of class algebra against interval-set arithmetic over all code points (Hypothesis, per-shard hash seeds)',
      'Generated |, -, ~ expressions over constructor leaves, str/token operands and overlapping/adjacent ranges are compared, over the whole '
      'code-point range, with interval-set algebra on the measured leaf sets; exception type must equal the model\'s (EmptyClass exactly when '
      'nothing is left, mixed polarity, Any, global word char); A|B vs B|A and ~~A are asserted directly.',
      'leaf sets are measured from the leaves\' own emitted text (C06 owns the constructors); 16-64 hash seeds sampled, not all 2^32',
      'DESIGN.md section 5 C07')
claim('C09', 'property-based testing with a three-valued repeatability oracle (Hypothesis + complete enumeration of short metacharacter literals)',
      'Every quantifier spelling is applied to all literals of length <= 2 (quick) / <= 3 (thorough) over a 17-character metacharacter alphabet, '
      'to generated assertion-free trees and to direct anchor / positive-lookaround instances (also on the empty pattern); '
      'CannotBeRepeatedException must be raised exactly for repeating quantifiers on direct assertions and never for assertion-free operands.',
      'operands that merely contain an anchor below the top node are unspecified and not judged',
      'DESIGN.md section 5 C09')
claim('C10', 'property-based testing with a structural width oracle cross-checked against re (Hypothesis)',
      'Generated assertion trees (literals and classes full of ? * + { } characters, exact/variable quantifiers, equal/unequal alternations, nested '
      'assertions) go through the four lookbehind constructors and methods; NonFixedWidthPatternException must be raised iff the structural '
      'width is not a single value, and accepted results must compile and match like the reference.',
      'width calculus is re-validated against re._parser getwidth() on every case; backreferences inside assertions unspecified',
      'DESIGN.md section 5 C10')

claim('C01', 'property-based round-trip testing of literals (Hypothesis + complete enumeration of short metacharacter strings) and differential testing in every str-accepting position',
      'Every string of length <= 2/3 over a 36-character metacharacter alphabet and generated Unicode strings must exactly-match themselves and '
      'none of ~20-60 near-miss texts (edits and "if it were syntax" readings); raw str arguments in every str-accepting position (table '
      'cross-checked against inspect.signature) are compared with a re.escape reference on targeted texts.',
      're.escape is the reference spelling; near-miss texts are a sample of "all candidate texts"',
      'DESIGN.md section 5 C01')
claim('C04', 'property-based testing with a direct repetition-count/greediness oracle and a differential {n,m} oracle (Hypothesis + complete enumeration of small bounds)',
      'All bound pairs over {0,1,2,3,4,7}/None x all spellings x greediness are enumerated for 6 rigid operands and checked by counting '
      'repetitions directly (accepted iff lo <= k <= hi; greedy takes most, lazy fewest); generated operand trees are compared with the '
      'canonical (?:X){lo,hi} reference in every spelling; invalid bounds must raise the documented exception.',
      'oracle A trusts only fullmatch/match on k-fold witnesses; oracle B trusts re\'s counted repetition',
      'DESIGN.md section 5 C04')
claim('C05', 'property-based metamorphic testing: inserting empty patterns must not change the expression (Hypothesis)',
      'Empty patterns in every spelling (incl. lazy/named/flagged quantifier, Group, Capture, Concat, Either, positive lookaround of empties, nested) '
      'are inserted at generated positions of generated trees as concat operand, n-ary operand, enclosing pattern, later alternative or positive '
      'lookaround assertion; the result must be equivalent to the original, each empty must print as the empty string, negative lookarounds must '
      'raise EmptyNegativeAssertionException.',
      'an empty receiver of either() is unspecified and never generated; equivalence judged by re on targeted texts',
      'DESIGN.md section 5 C05')
claim('C08', 'property-based testing of group structure against a value-level capture model and a reference regex (Hypothesis)',
      'Trees biased to nested Capture/Group (named, unnamed, flagged) over literals containing group syntax are compared with the model: number '
      'of groups, name->index map in opening order, m.groups() on texts, flag scope; failures shrink to minimal nestings.',
      'value-level reading of "is a group"; duplicate names and non-ASCII names unspecified',
      'DESIGN.md section 5 C08')

claim('C11', 'stateful (history-based) property testing of the matching API against re, with generated operation sequences (Hypothesis)',
      'For one pattern instance a generated sequence of compile / get_compiled_pattern(True|False) / purge / matching calls is executed; after every '
      'matching call the result must equal re.search/fullmatch/finditer on str(p) under MULTILINE|DOTALL, positions must slice back to the match, '
      'iterate_* must equal get_*, the returned compiled object must carry M|S and agree, and the cache state must follow the documented model.',
      're on str(p) is the reference; the private cache attribute is read only if present',
      'DESIGN.md section 5 C11')
claim('C12', 'property-based testing of capture extraction against re.Match objects (Hypothesis)',
      'Generated group layouts (named/unnamed in any order, nested, optional, empty-capable) x texts x include_empty x relative_to_match: every '
      'get_/iterate_ capture method must equal the lists derived directly from re.Match (groups, groupdict, span(k), span(name)), and every '
      'reported position must slice back to the captured text.',
      're.Match of re.compile(str(p)) is the reference; captures inside lookarounds may lie outside the match (offset identity checked instead)',
      'DESIGN.md section 5 C12')
claim('C13', 'property-based round-trip testing of split/replace against re spans (Hypothesis)',
      'split_by_match / split_by_capture pieces are recomputed from re.finditer spans and must rebuild the source; replace must equal the hand-built '
      'string for every count (0 = all), equal repl.join(split) when all are replaced, and reject negative counts with the documented exception.',
      'plain replacement strings only (no backslash); split_by_capture judged only for non-nested in-order captured spans',
      'DESIGN.md section 5 C13')

claim('C15', 'property-based testing against a numeric model (complete enumeration of small ranges x numerals + Hypothesis for large ranges and contexts)',
      'All ranges within 0..130 x numerals 0..1400 with 0-2 leading zeros are decided by exact match against "canonical and in range"; generated '
      'ranges over all digit-length combinations (carries, 10^k+-1), token texts with every sign context incl. text start/end, the four sign '
      'variants, include_sign and the extensible form with prefixes are compared with a three-valued model of the documented sign rules.',
      'digit runs glued to letters, value 0 for Positive/Negative and sign optionality in extensible signed forms are unspecified',
      'DESIGN.md section 5 C15')
claim('C16', 'property-based testing against a numeric model with single-fault candidates (Hypothesis)',
      'Candidates assembled from (sign, integer part, dot, fraction) with single faults are decided by exact match for all four variants, '
      'include_sign, generated ranges and fraction bounds; get_matches over space-separated candidates equals the model list; invalid bounds '
      'must raise the documented exceptions.',
      'candidates touching another dot/digit are unspecified; ASCII digits only',
      'DESIGN.md section 5 C16')
claim('C17', 'property-based testing against direct Python models (complete parameter grid for Numeral + Hypothesis)',
      'Numeral: all bases 2-16 x all bound pairs over 0..5/None are enumerated with candidates in both cases and one-off-alphabet characters; '
      'Word and the affix classes are compared with \\w-run models over generated sentences; affixes with metacharacters must be read '
      'literally; invalid parameters must raise the documented exceptions.',
      'degenerate parameters (empty affix, n_max = 0) unspecified; is_global=False judged on ASCII texts only',
      'DESIGN.md section 5 C17')
claim('C18', 'differential testing against the ipaddress module over a complete shape grid (enumeration) plus property-based rendering of random addresses (Hypothesis)',
      'IPv4: all octet strings 0..999 with 0-2 leading zeros in every position. IPv6: complete grid of (left groups 0-9) x (::) x (right groups 0-9) '
      'x deviant groups x colon anomalies for both is_extensible settings; random 128-bit values in random RFC 4291 renderings must match; '
      'addresses glued to digits/separators must not be matched by the non-extensible form.',
      'ipaddress is the reference; automaton equivalence of the whole regular language is not attempted (see DESIGN.md)',
      'DESIGN.md section 5 C18')
claim('C19', 'complete enumeration of candidate dates per format against a direct parser + property-based format-argument testing (Hypothesis)',
      'For each of the 48 formats and both is_extensible settings the pairwise slice (quick) or the full product (thorough) of field candidates '
      '(0..9, 00..99, 3-digit strings, years of length 1-5, all separator combinations) is decided against a direct parser of the format '
      'string; subsets of formats, None/str/list arguments and invalid arguments are generated.',
      'ASCII digits; the empty list is unspecified',
      'DESIGN.md section 5 C19')
claim('C20', 'stateful (history-based) property testing with aliasing and cross-process replay under different hash seeds (Hypothesis + subprocess replay)',
      'Generated programs combine shared live objects with every operator/spelling, compile and match with them and apply class algebra; after '
      'each step every object\'s snapshot must be unchanged and the result must equal a rebuild from fresh leaves; every program is then '
      're-executed in fresh interpreters under other PYTHONHASHSEED values and the semantic fingerprints must be identical.',
      '2-4 extra hash seeds per shard over 16-64 shards (sampling of the 2^32 seeds); class results fingerprinted on ~220 probe characters',
      'DESIGN.md section 5 C20')

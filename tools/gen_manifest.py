#!/usr/bin/env python3
"""Regenerates MANIFEST.json from the table below (one entry per claimed property)."""
import json
import os
import subprocess

VERIF = os.path.dirname(os.path.dirname(os.path.abspath(__file__)))
ALL = [f'C{i:02d}' for i in range(1, 21)]

# id -> (technique, level text, level note, design ref)
CHECKS = {}


def claim(pid, technique, text, note, ref):
    CHECKS[pid] = (technique, text, note, ref)


NOT_APPLICABLE = {}

exec(open(os.path.join(VERIF, 'tools', 'claims.py')).read())


def main():
    checks = []
    for pid in ALL:
        if pid not in CHECKS:
            continue
        technique, text, note, ref = CHECKS[pid]
        checks.append({
            'property_id': pid,
            'quick_cmd': f'./check {pid} quick',
            'thorough_cmd': f'./check {pid} thorough',
            'evidence_file': f'evidence/{pid}.json',
            'replay_cmd_template': './check --replay {path}',
            'engine': 'pbt',
            'level_claimed': {'category': 'exploration', 'text': text, 'design_ref': ref},
            'level_note': note,
            'technique': technique,
        })
    fixes = subprocess.run(['git', '-C', '/repo', 'log', '--format=%h %s'], capture_output=True, text=True).stdout
    fix_commits = [ln.split()[0] for ln in fixes.splitlines() if ln.split(' ', 1)[1].startswith('fix:')]
    manifest = {
        'version': 1,
        'setup_cmd': './setup.sh',
        'hooks': {
            'guard': 'MANOSS96_PREGEX_VERIF (unused: no hooks or instrumentation were added to /repo; every observation '
                     'point is public API)',
            'enable': 'none needed: checks import pregex from /repo/src (PYTHONPATH) in fresh processes on every run',
            'baseline_off_cmd': 'cd /repo && /venv/bin/python -m pytest -q -p no:cacheprovider',
            'source_commits': [],
            'add_only': True,
        },
        'engines': [{
            'name': 'pbt', 'path': 'pbt/',
            'serves_properties': sorted(CHECKS),
            'kind_free_text': 'Hypothesis 6.168 property-based testing (seeded per shard, one interpreter per shard so '
                              'PYTHONHASHSEED is a generated configuration), complete enumeration of small finite '
                              'sub-domains, explicit oracles (Python re on a fully parenthesised reference, interval-set '
                              'model over all code points, direct parsers / ipaddress), shrunk failures saved as replay files',
        }],
        'checks': checks,
        'not_applicable': [{'property_id': p, 'reason': NOT_APPLICABLE[p]} for p in ALL if p not in CHECKS],
        'notes': 'Unguarded repairs of genuine defects in /repo (fix: commits): ' + ', '.join(fix_commits) +
                 '. known_findings.txt lists repaired (fixed:) and recorded (finding:) defects.',
    }
    for p in ALL:
        if p not in CHECKS and p not in NOT_APPLICABLE:
            raise SystemExit(f'{p} neither claimed nor not_applicable')
    with open(os.path.join(VERIF, 'MANIFEST.json'), 'w') as f:
        json.dump(manifest, f, indent=1)
        f.write('\n')
    print('claimed:', sorted(CHECKS), 'not_applicable:', [p for p in ALL if p not in CHECKS])


if __name__ == '__main__':
    main()

#!/usr/bin/env python3
"""Regenerates the table of DESIGN.md section 10 from seeded/*/meta.json (between the two marker comments)."""
import glob
import json
import os

VERIF = os.path.dirname(os.path.dirname(os.path.abspath(__file__)))


def esc(t):
    return str(t).replace('|', '\\|').replace('\n', ' ')


rows = []
for d in sorted(glob.glob(os.path.join(VERIF, 'seeded', '*', ''))):
    name = os.path.basename(d.rstrip('/'))
    m = json.load(open(os.path.join(d, 'meta.json')))
    det = [c for c, v in m.get('checks', {}).items() if v.get('detected')]
    rnd = name[-1] if name[:-1].endswith('round') else '1'
    first = m.get('detected_with_machinery_frozen')
    note = m.get('result', '')
    if m.get('superseded'):
        det = ['(superseded) C03']
    if m.get('excluded'):
        det = ['(not counted: see last column)'] + det
    rows.append((name, rnd, esc(m.get('breaks', ''))[:220], esc(m.get('needs_to_manifest', ''))[:200], ', '.join(det) or 'none', esc(note)[:260]))
out = ['<!-- SEEDED-TABLE-BEGIN -->', '', '| change | round | what it breaks | what it needs to manifest | quick checks that turn red | how it was caught |',
       '|---|---|---|---|---|---|']
for r in rows:
    out.append(f'| `{r[0]}` | {r[1]} | {r[2]} | {r[3]} | {r[4]} | {r[5]} |')
out += ['', '<!-- SEEDED-TABLE-END -->']
p = os.path.join(VERIF, 'DESIGN.md')
s = open(p).read()
if 'SEEDED_TABLE_PLACEHOLDER' in s:
    s = s.replace('SEEDED_TABLE_PLACEHOLDER', '\n'.join(out))
else:
    i, j = s.index('<!-- SEEDED-TABLE-BEGIN -->'), s.index('<!-- SEEDED-TABLE-END -->') + len('<!-- SEEDED-TABLE-END -->')
    s = s[:i] + '\n'.join(out) + s[j:]
open(p, 'w').write(s)
print(len(rows), 'rows')

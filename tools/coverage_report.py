#!/usr/bin/env python3
"""Development aid: which lines / branches of /repo/src do the checks never execute?

usage: tools/coverage_report.py [ID ...]      (default: all 20, quick tier)
Runs ./check <ID> quick with VERIF_COVERAGE_DIR set (coverage.py happens to be installed in /venv; it is not in the
wheelhouse, so no registered command depends on it), combines the per-shard data and prints the missing lines per file.
A line no check executes is a line whose mutation no check can notice: the report is read for blind spots.
"""
import glob
import os
import shutil
import subprocess
import sys
import tempfile

VERIF = os.path.dirname(os.path.dirname(os.path.abspath(__file__)))


def main():
    ids = sys.argv[1:] or [f'C{i:02d}' for i in range(1, 21)]
    d = tempfile.mkdtemp(prefix='verif_cov_')
    try:
        env = dict(os.environ, VERIF_COVERAGE_DIR=d, VERIF_NO_EVIDENCE='1')
        for i in ids:
            r = subprocess.run([os.path.join(VERIF, 'check'), i, 'quick'], env=env, cwd=VERIF, stdout=subprocess.PIPE, stderr=subprocess.STDOUT, text=True)
            print(i, 'exit', r.returncode, r.stdout.strip().splitlines()[-1][:160] if r.stdout.strip() else '')
        code = ("import coverage, glob, sys\n"
                f"c = coverage.Coverage(data_file={os.path.join(d, 'combined')!r}, branch=True)\n"
                f"c.combine(glob.glob({os.path.join(d, 'cov.*')!r}))\n"
                "c.save()\n"
                "c.report(show_missing=True, skip_empty=True)\n")
        subprocess.run(['/venv/bin/python', '-c', code], cwd=VERIF)
    finally:
        shutil.rmtree(d, ignore_errors=True)


if __name__ == '__main__':
    main()

#!/bin/sh
# Re-evaluate every filed seeded change with the current machinery (scratch copies only; /repo is never modified).
# usage: tools/seeded_all.sh [tier] [parallel jobs, default 3]
cd "$(dirname "$0")/.." || exit 2
tier=${1:-quick}
jobs=${2:-3}
one() {
  d=$1
  name=$(basename "$d")
  prop=$(python3 -c "import json;print(json.load(open('$d/meta.json'))['property'])")
  extra=$(python3 -c "import json;m=json.load(open('$d/meta.json'));print(','.join(c for c,v in m.get('checks',{}).items() if c!='$prop'))")
  python3 tools/seeded.py "$prop" "$d" --name "$name" --tier "$tier" ${extra:+--checks "$extra"} > "/tmp/seeded_$name.log" 2>&1
  python3 - "$d" <<'PY'
import json, sys
m = json.load(open(sys.argv[1] + '/meta.json'))
det = [c for c, v in m.get('checks', {}).items() if v.get('detected')]
print(f"{sys.argv[1]:24s} genuine={m.get('genuine')} detected_by={det}")
PY
}
if [ -n "$SEEDED_ONE" ]; then one "$SEEDED_ONE"; exit 0; fi
ls -d seeded/*/ | xargs -P "$jobs" -I{} env SEEDED_ONE={} sh "$0" "$tier" "$jobs"

#!/usr/bin/env python3
"""Sensitivity gate: each registered check must turn red on realistic breakage of its property.

For every mutant: copy /repo (src + tests) to a scratch directory outside /repo and /verif, apply one textual
edit (or reverse-apply one fix: commit), run the repository's own unedited test suite on the copy (a mutant
is *realistic* only if the suite still passes), run `./check <ID> quick` against the copy
(VERIF_REPO_SRC=<copy>/src), expect exit 1 with a VIOLATION line, delete the copy.

usage: tools/sensitivity.py [--only C05,C07] [--reverts] [--jobs N]
Writes sensitivity_results.json (committed as a record; not evidence).
"""
import argparse
import json
import os
import shutil
import subprocess
import sys
import tempfile

VERIF = os.path.dirname(os.path.dirname(os.path.abspath(__file__)))
PRE = 'src/pregex/core/pre.py'
CLS = 'src/pregex/core/classes.py'
ESS = 'src/pregex/meta/essentials.py'
GRP = 'src/pregex/core/groups.py'

# (mutant id, properties whose check must catch it, file, old, new[, expect]) ; expect 'green' marks a negative control
MUTANTS = [
    ('C01-enclose-str-unescaped', ['C01'], PRE,
     "        pre = __class__._to_pregex(pre)._concat_conditional_group()\n        pattern = __class__.__join(pre, self._concat_conditional_group())",
     "        pre = (Pregex(pre, escape=False) if isinstance(pre, str) else __class__._to_pregex(pre))._concat_conditional_group()\n        pattern = __class__.__join(pre, self._concat_conditional_group())"),
    ('C01-escape-first-occurrence-only', ['C01'], PRE,
     '            pattern = pattern.replace(c, f"\\\\{c}")', '            pattern = pattern.replace(c, f"\\\\{c}", 1)'),
    ('C02-enclose-drops-group-of-enclosing', ['C02'], PRE,
     "        pre = __class__._to_pregex(pre)._concat_conditional_group()\n        pattern = __class__.__join(pre, self._concat_conditional_group())",
     "        pre = str(__class__._to_pregex(pre))\n        pattern = __class__.__join(pre, self._concat_conditional_group())"),
    ('C02-match-at-end-ungrouped', ['C02'], PRE,
     '        return __class__(f"{self._assert_conditional_group()}\\\\Z", escape=False)', '        return __class__(f"{self}\\\\Z", escape=False)'),
    ('C02-backreference-digit-guard-removed', ['C02', 'C08'], PRE,
     "        if right[:1] in tuple(\"0123456789\") and \\", "        if False and right[:1] in tuple(\"0123456789\") and \\"),
    ('C03-repr-keeps-doubled-backslashes', ['C03', 'C11'], PRE,
     '        return _re.sub(r"\\\\\\\\", r"\\\\", repr(self.__pattern)[1:-1])', '        return repr(self.__pattern)[1:-1]'),
    ('C04-inverted-bounds-accepted-when-m-is-0', ['C04'], PRE,
     '        elif m < n:\n            message = "The value of parameter \\"m\\" can\'t be"', '        elif m < n and m != 0:\n            message = "The value of parameter \\"m\\" can\'t be"'),
    ('C05-either-keeps-empty-when-receiver-is-alternation', ['C05'], PRE,
     "        if pre._get_type() == _Type.Empty:\n            pattern = str(self)", "        if pre._get_type() == _Type.Empty and self._get_type() != _Type.Alternation:\n            pattern = str(self)"),
    ('C05-followed-by-keeps-empty-when-receiver-is-assertion', ['C05'], PRE,
     "        if pre._get_type() == _Type.Empty:\n            return self\n        return __class__(\n            f\"{self._assert_conditional_group()}(?={pre})\"",
     "        if pre._get_type() == _Type.Empty and self._get_type() != _Type.Assertion:\n            return self\n        return __class__(\n            f\"{self._assert_conditional_group()}(?={pre})\""),
    ('C05-optional-shortcircuit-only-greedy', ['C05'], PRE,
     "        if self._get_type() == _Type.Empty:\n            return self\n        return __class__(\n            f\"{self._quantify_conditional_group()}?{'' if is_greedy else '?'}\"",
     "        if self._get_type() == _Type.Empty and is_greedy:\n            return self\n        return __class__(\n            f\"{self._quantify_conditional_group()}?{'' if is_greedy else '?'}\""),
    ('C05-capture-shortcircuit-only-unnamed', ['C05'], PRE,
     "        if self.__type == _Type.Empty:\n            return self\n        elif self.__type == _Type.Group and not self.__pattern.startswith(('(?P=', '(?(')):\n            if self.__pattern.startswith('(?:'):",
     "        if self.__type == _Type.Empty and name is None:\n            return self\n        elif self.__type == _Type.Group and not self.__pattern.startswith(('(?P=', '(?(')):\n            if self.__pattern.startswith('(?:'):"),
    ('C05-group-shortcircuit-only-without-flag', ['C05'], PRE,
     "        if self.__type == _Type.Empty:\n            return self\n        elif self.__type == _Type.Group and not self.__pattern.startswith(('(?P=', '(?(')):\n            if self.__pattern.startswith('(?P'):",
     "        if self.__type == _Type.Empty and not is_case_insensitive:\n            return self\n        elif self.__type == _Type.Group and not self.__pattern.startswith(('(?P=', '(?(')):\n            if self.__pattern.startswith('(?P'):"),
    ('NEGATIVE-CONTROL-concat-empty-returns-equal-copy', ['C05', 'C20'], PRE,
     "        if pre._get_type() == _Type.Empty:\n            return self\n\n        pattern = self._concat_conditional_group()",
     "        if pre._get_type() == _Type.Empty:\n            return __class__(str(self), escape=False)\n\n        pattern = self._concat_conditional_group()", 'green'),
    ('C06-chars-to-range-closes-gap-above-ascii', ['C06'], CLS,
     "                    elif ord(end) == ord(c_j) - 1:", "                    elif ord(end) == ord(c_j) - 1 or (ord(end) > 127 and ord(end) == ord(c_j) - 2):"),
    ('C06-anybetween-equal-endpoints-accepted', ['C06'], CLS,
     "        if ord(start) >= ord(end):\n            raise _ex.InvalidRangeException(start, end)\n        start = f\"\\\\{start}\" if start in __class__._to_escape else start\n        end = f\"\\\\{end}\" if end in __class__._to_escape else end\n        super().__init__(f\"[{start}-{end}]\", is_negated=False)",
     "        if ord(start) > ord(end):\n            raise _ex.InvalidRangeException(start, end)\n        start = f\"\\\\{start}\" if start in __class__._to_escape else start\n        end = f\"\\\\{end}\" if end in __class__._to_escape else end\n        super().__init__(f\"[{start}-{end}]\", is_negated=False)"),
    ('C07-subtract-upper-remainder-off-by-one-above-ascii', ['C07'], CLS,
     "                        elif start_1 >= start_2 and end_1 >= end_2:\n                            split_rng.append((chr(ord(end_2) + 1), end_1))",
     "                        elif start_1 >= start_2 and end_1 >= end_2:\n                            split_rng.append((chr(ord(end_2) + (2 if ord(end_2) > 127 else 1)), end_1))"),
    ('C07-reduce-chars-absorbs-char-two-below-range', ['C07'], CLS,
     "                    elif ord(start) == ord(chars[i]) + 1:", "                    elif ord(start) == ord(chars[i]) + 1 or ord(start) == ord(chars[i]) + 2:"),
    ('C07-invert-keeps-polarity', ['C07'], CLS,
     "}]\", not self.__is_negated)", "}]\", self.__is_negated)"),
    ('C08-group-flag-rewrite-without-count', ['C08'], PRE,
     "                    self.__pattern,\n                    count=1)", "                    self.__pattern)"),
    ('C08-capture-rename-without-count', ['C08'], PRE,
     "pattern = _re.sub('\\(\\?P<[^>]*>', f'(?P<{name}>', pattern, count=1)", "pattern = _re.sub('\\(\\?P<[^>]*>', f'(?P<{name}>', pattern)"),
    ('C08-group-uncapture-without-count', ['C08'], PRE,
     "is_case_insensitive else ''}:\", str(self), count=1)", "is_case_insensitive else ''}:\", str(self))"),
    ('C09-assertion-recogniser-loses-dotall', ['C09'], PRE,
     "        elif _re.fullmatch(r\"(?:\\^|\\\\A|\\(\\?<=.+\\)).+|.+(?:(?<!\\\\)\\$|\\\\Z|\\(\\?=.+\\))\",\n            pattern, flags=__class__.__flags) is not None:",
     "        elif _re.fullmatch(r\"(?:\\^|\\\\A|\\(\\?<=.+\\)).+|.+(?:(?<!\\\\)\\$|\\\\Z|\\(\\?=.+\\))\",\n            pattern, flags=_re.MULTILINE) is not None:"),
    ('C09-range-skips-repeatability-when-lazy', ['C09'], PRE,
     "            if not self._is_repeatable():\n                raise _ex.CannotBeRepeatedException(self)\n            return __class__(\n                    f\"{self._quantify_conditional_group()}{{{n},{m}}}",
     "            if is_greedy and not self._is_repeatable():\n                raise _ex.CannotBeRepeatedException(self)\n            return __class__(\n                    f\"{self._quantify_conditional_group()}{{{n},{m}}}"),
    ('C10-width-check-skipped-for-alternations', ['C10'], PRE,
     "        try:\n            _re.compile(f\"(?<={pattern})\", flags=__class__.__flags)", "        if '|' in pattern:\n            return True\n        try:\n            _re.compile(f\"(?<={pattern})\", flags=__class__.__flags)"),
    ('C10-not-enclosed-by-skips-width-check', ['C10'], PRE,
     "        if not __class__.__has_fixed_width(str(pre)):\n            raise _ex.NonFixedWidthPatternException(pre)\n        pattern = f\"(?<!{pre}){self._assert_conditional_group()}(?!{pre})\"",
     "        pattern = f\"(?<!{pre}){self._assert_conditional_group()}(?!{pre})\""),
    ('C11-get-compiled-pattern-always-discards', ['C11'], PRE,
     "        if discard_after:\n            self.__compiled = None", "        if True:\n            self.__compiled = None"),
    ('C11-compiled-has-match-uses-match', ['C11'], PRE,
     "            if self.__compiled is None else self.__compiled.search(source))", "            if self.__compiled is None else self.__compiled.match(source))"),
    ('C11-compile-drops-dotall', ['C11'], PRE,
     "        self.__compiled = _re.compile(self.get_pattern(), flags=self.__flags)", "        self.__compiled = _re.compile(self.get_pattern(), flags=_re.MULTILINE)"),
    ('C12-relative-offset-without-participation-guard', ['C12'], PRE,
     "                    start, end = match.span(k)\n                    if relative_to_match and start > -1:", "                    start, end = match.span(k)\n                    if relative_to_match:"),
    ('C12-include-empty-drops-none-too', ['C12'], PRE,
     "                tuple(group for group in match.groups() if group != '')", "                tuple(group for group in match.groups() if group)"),
    ('C13-replace-count-plus-one', ['C13'], PRE,
     "        return _re.sub(str(self), repl, source, count, flags=self.__flags)", "        return _re.sub(str(self), repl, source, count if count < 2 else count + 1, flags=self.__flags)"),
    ('C13-split-drops-trailing-empty-piece', ['C13'], PRE,
     "            split_list.append(source[index:start])\n            index = end\n        split_list.append(source[index:])\n        return split_list\n\n\n    def split_by_capture",
     "            split_list.append(source[index:start])\n            index = end\n        if source[index:] != '' or not split_list:\n            split_list.append(source[index:])\n        return split_list\n\n\n    def split_by_capture"),
    ('C13-split-ignores-empty-matches', ['C13'], PRE,
     "        for _, start, end in self.iterate_matches_and_pos(source):\n            split_list.append(source[index:start])", "        for _, start, end in self.iterate_matches_and_pos(source):\n            if start == end:\n                continue\n            split_list.append(source[index:start])"),
    ('C14-right-window-uses-n-left', ['C14'], PRE,
     "            yield source[max(start - n_left, 0):min(end + n_right, len(source))]", "            yield source[max(start - n_left, 0):min(end + n_left, len(source))]"),
    ('C14-split-by-match-ignores-is-path', ['C14'], PRE,
     "        if is_path:\n            source = self.__extract_text(source)\n        split_list, index = list(), 0\n        for _, start, end in self.iterate_matches_and_pos(source):",
     "        split_list, index = list(), 0\n        for _, start, end in self.iterate_matches_and_pos(source):"),
    ('C15-upper-digit-alternative-stops-at-8', ['C15'], ESS,
     "                    any_between(d_start, '9').preceded_by(p_start),", "                    any_between(d_start, '8').preceded_by(p_start),"),
    ('C15-leading-zero-guard-starts-one-digit-later', ['C15'], ESS,
     "                if i > 1:\n                    digit_pre = \\", "                if i > 2:\n                    digit_pre = \\"),
    ('C16-no-integer-part-also-when-start-is-1', ['C16'], ESS,
     "        integer_part = Integer(start, end, include_sign, is_extensible)\n\n        if start == 0:", "        integer_part = Integer(start, end, include_sign, is_extensible)\n\n        if start <= 1:"),
    ('C16-fraction-min-one-less', ['C16'], ESS,
     "        pre += \".\" + Numeral(n_min=min_decimal, n_max=max_decimal, is_extensible=is_extensible)", "        pre += \".\" + Numeral(n_min=max(min_decimal - 1, 1) if min_decimal > 2 else min_decimal, n_max=max_decimal, is_extensible=is_extensible)"),
    ('C17-base-12-only-lowercase-b', ['C17'], ESS, '12 : _cl.AnyFrom("b", "B")', '12 : _cl.AnyFrom("b", "B") if base != 12 else _cl.AnyFrom("b")'),
    ('C17-word-max-7-built-as-8', ['C17'], ESS,
     "        pre = pre.at_least_at_most(n=min_chars, m=max_chars)\n        super().__init__(pre, is_extensible)\n\n\nclass WordContains", "        pre = pre.at_least_at_most(n=min_chars, m=8 if max_chars == 7 else max_chars)\n        super().__init__(pre, is_extensible)\n\n\nclass WordContains"),
    ('C18-ipv4-octet-256', ['C18'], ESS, "                '5' + (any_digit_up_to_four | '5')", "                '5' + (any_digit_up_to_four | '5' | '6')"),
    ('C18-ipv6-right-bound-one-too-large', ['C18'], ESS, 'n=0, m=6-i) if i < 6 else empty)', 'n=0, m=7-i) if i < 6 else empty)'),
    ('C19-dd-accepts-32', ['C19'], ESS, "                    either_zero_or_one.preceded_by('3')", "                    _op.Either('0', '1', '2').preceded_by('3')"),
    ('C19-mm-accepts-13', ['C19'], ESS, "                '1' + either_zero_or_one.either('2')),", "                '1' + either_zero_or_one.either('2').either('3')),"),
    ('C20-compile-overwrites-pattern-with-export', ['C20'], PRE,
     "        self.__compiled = _re.compile(self.get_pattern(), flags=self.__flags)", "        self.__compiled = _re.compile(self.get_pattern(), flags=self.__flags)\n        self.__pattern = self.get_pattern()"),
    ('C20-exactly-1-marks-shared-operand-repeatable', ['C20'], PRE,
     "        if n == 1:\n            return self\n        else:\n            if n < 0:\n                message = \"Parameter \\\"n\\\" can't be negative.\"\n                raise _ex.InvalidArgumentValueException(message)\n            if self._get_type() == _Type.Empty:\n                return self\n            if not self._is_repeatable():\n                raise _ex.CannotBeRepeatedException(self)\n            return __class__(\n                f\"{self._quantify_conditional_group()}{{{n}}}\",",
     "        if n == 1:\n            self.__repeatable = True\n            return self\n        else:\n            if n < 0:\n                message = \"Parameter \\\"n\\\" can't be negative.\"\n                raise _ex.InvalidArgumentValueException(message)\n            if self._get_type() == _Type.Empty:\n                return self\n            if not self._is_repeatable():\n                raise _ex.CannotBeRepeatedException(self)\n            return __class__(\n                f\"{self._quantify_conditional_group()}{{{n}}}\","),
    ('C20-class-union-order-depends-on-hash', ['C20', 'C07'], CLS,
     "        ranges = reduce_ranges(ranges)\n", "        ranges = reduce_ranges(ranges)\n        if len(chars) > 1 and sorted(chars)[0] != list(chars)[0]:\n            chars = set(list(chars)[1:])\n"),
]


def sh(cmd, **kw):
    return subprocess.run(cmd, stdout=subprocess.PIPE, stderr=subprocess.STDOUT, text=True, **kw)


def make_copy():
    d = tempfile.mkdtemp(prefix='pregex_mut_')
    shutil.copytree('/repo/src', os.path.join(d, 'src'))
    shutil.copytree('/repo/tests', os.path.join(d, 'tests'))
    return d


def suite_passes(d):
    env = dict(os.environ, PYTHONPATH=os.path.join(d, 'src'), PYTHONDONTWRITEBYTECODE='1')
    r = sh(['/venv/bin/python', '-m', 'pytest', '-q', '-x', '-p', 'no:cacheprovider', os.path.join(d, 'tests')], env=env, cwd=d)
    tail = r.stdout.strip().splitlines()[-1] if r.stdout.strip() else ''
    return r.returncode == 0, tail


def run_check(prop, d, seed):
    env = dict(os.environ, VERIF_REPO_SRC=os.path.join(d, 'src'), VERIF_SEED=str(seed), VERIF_NO_EVIDENCE='1')
    r = sh([os.path.join(VERIF, 'check'), prop, 'quick'], env=env, cwd=VERIF)
    lines = [ln for ln in r.stdout.splitlines() if ln.startswith(('VIOLATION', '  kind', '  regression'))]
    return r.returncode, lines


def run_mutant(m, seed):
    mid, props, path, old, new = m[:5]
    expect = m[5] if len(m) > 5 else 'red'
    d = make_copy()
    try:
        f = os.path.join(d, path.replace('src/', 'src/', 1))
        s = open(f).read()
        if s.count(old) != 1:
            return {'id': mid, 'status': f'edit not applicable (found {s.count(old)} times)'}
        open(f, 'w').write(s.replace(old, new))
        ok, tail = suite_passes(d)
        res = {'id': mid, 'suite': 'passes' if ok else f'KILLED BY SUITE: {tail}', 'expect': expect, 'checks': {}}
        for p in props:
            rc, lines = run_check(p, d, seed)
            res['checks'][p] = {'exit': rc, 'lines': lines[:4]}
        return res
    finally:
        shutil.rmtree(d, ignore_errors=True)


def run_revert(commit, subject, props, seed):
    d = make_copy()
    try:
        diff = subprocess.run(['git', '-C', '/repo', 'show', '--format=', commit], stdout=subprocess.PIPE).stdout
        r = subprocess.run(['patch', '-R', '-p1', '-d', d, '--no-backup-if-mismatch'], input=diff, stdout=subprocess.PIPE, stderr=subprocess.STDOUT)
        if r.returncode != 0:
            return {'id': f'revert-{commit}', 'status': 'reverse patch does not apply (later fixes touch the same lines)', 'subject': subject}
        ok, tail = suite_passes(d)
        res = {'id': f'revert-{commit}', 'subject': subject, 'suite': 'passes' if ok else f'KILLED: {tail}', 'expect': 'red', 'checks': {}}
        for p in props:
            rc, lines = run_check(p, d, seed)
            res['checks'][p] = {'exit': rc, 'lines': lines[:3]}
        return res
    finally:
        shutil.rmtree(d, ignore_errors=True)


# fixes whose revert no longer shows under the property they were found with, because a later fix changed the symptom
REVERT_PROPS = {
    '858c317': ['C02'],      # RecursionError is now stopped by the progress guard; the mis-grouping remains
    '9496c31': ['C01'],             # Conditional results are exempt from stand-alone compilation in C03
}


def fixed_entries():
    out = []
    for line in open(os.path.join(VERIF, 'known_findings.txt')):
        if line.startswith('fixed:'):
            parts = line.split()
            out.append((parts[2], parts[1].split('=')[1], ' '.join(parts[3:])[:80]))
    return out


def main():
    ap = argparse.ArgumentParser()
    ap.add_argument('--only', default='')
    ap.add_argument('--reverts', action='store_true')
    ap.add_argument('--seed', default='1')
    args = ap.parse_args()
    only = set(filter(None, args.only.split(',')))
    results = []
    if args.reverts:
        for commit, prop, subject in fixed_entries():
            if only and prop not in only:
                continue
            r = run_revert(commit, subject, REVERT_PROPS.get(commit, [prop]), args.seed)
            results.append(r)
            print(json.dumps(r)[:400], flush=True)
    else:
        for m in MUTANTS:
            if only and not (set(m[1]) & only):
                continue
            r = run_mutant(m, args.seed)
            results.append(r)
            print(json.dumps(r)[:600], flush=True)
    bad = []
    for r in results:
        if 'checks' not in r:
            bad.append((r['id'], r.get('status')))
            continue
        want = 0 if r.get('expect') == 'green' else 1
        for p, c in r['checks'].items():
            if c['exit'] != want:
                bad.append((r['id'], p, f"exit {c['exit']}, wanted {want}"))
    out = os.path.join(VERIF, 'sensitivity_results.json')
    prev = json.load(open(out)) if os.path.exists(out) else {}
    prev.update({r['id']: r for r in results})
    json.dump(prev, open(out, 'w'), indent=1)
    print('\nNOT AS EXPECTED:' if bad else '\nall as expected')
    for b in bad:
        print('  ', b)
    return 1 if bad else 0


if __name__ == '__main__':
    sys.exit(main())

#!/bin/sh
# usage: tools/run_all.sh quick|thorough [seed]   -- runs every registered check, prints one line each
cd "$(dirname "$0")/.." || exit 2
tier=${1:-quick}; seed=${2:-1}
rc_all=0
for i in 01 02 03 04 05 06 07 08 09 10 11 12 13 14 15 16 17 18 19 20; do
  out=$(VERIF_SEED=$seed ./check C$i $tier 2>&1); rc=$?
  echo "$out" | grep -E "^(C[0-9]+ |VIOLATION|KNOWN|HARNESS|  kind)" | head -8
  [ $rc -ne 0 ] && { echo "  -> exit $rc"; rc_all=1; }
done
exit $rc_all

"""Harness self-test (run by setup.sh): the trusted pieces of the machinery against independent facts."""
import os
import random
import re
import sys

sys.path.insert(0, os.path.dirname(os.path.dirname(os.path.abspath(__file__))))
from pbt import charsets as cs  # noqa: E402
from pbt.common import import_pregex  # noqa: E402


def interval_algebra():
    rng = random.Random(7)
    U = 48

    def rs():
        return cs.norm([(a, a + rng.randint(0, 6)) for a in rng.sample(range(U), 3)])

    def toset(a):
        return {x for lo, hi in a for x in range(lo, hi + 1) if x < U}
    for _ in range(3000):
        a, b = rs(), rs()
        assert toset(cs.union(a, b)) == toset(a) | toset(b)
        assert toset(cs.diff(a, b)) == toset(a) - toset(b)
        assert toset(cs.intersect(a, b)) == toset(a) & toset(b)
        assert toset(cs.complement(a)) == set(range(U)) - toset(a)


def scan_is_exact():
    assert cs.scan('[a-c]') == ((97, 99),)
    assert cs.scan(r'[^\x00-\U0010fffe]') == ((0x10FFFF, 0x10FFFF),)
    assert cs.scan('.') == cs.FULL
    for bad in ('ab', 'a?', '[a', 'a|bc'):
        try:
            cs.scan(bad)
        except cs.NotACharSet:
            continue
        raise AssertionError(f'scan accepted {bad!r}')


def noncapturing_wrapper_is_transparent():
    rng = random.Random(11)
    atoms = ['a', 'b', '[ab]', '.', 'a|b', 'ab', r'\b', '(a)', '(?:a|ab)', 'a*', 'b+?', '(?=a)', '^', '$', r'\d']
    texts = ['', 'a', 'ab', 'aab', 'ba\nab', 'abab', 'b1a']
    for _ in range(3000):
        parts = [rng.choice(atoms) for _ in range(rng.randint(1, 3))]
        q = rng.choice(['', '', '?', '*', '{2}'])
        a = ''.join(f'(?:{x})' for x in parts)
        b = ''.join(f'(?:(?:{x}))' for x in parts)
        for pat_a, pat_b in ((a, b), (f'(?:{a}){q}', f'(?:(?:{a})){q}')):
            ra, rb = re.compile(pat_a, re.M | re.S), re.compile(pat_b, re.M | re.S)
            for t in texts:
                assert [(m.span(), m.groups()) for m in ra.finditer(t)] == [(m.span(), m.groups()) for m in rb.finditer(t)]
                # re.sub and finditer agree on (empty) matches
                pieces, idx = [], 0
                for m in ra.finditer(t):
                    pieces.append(t[idx:m.start()])
                    idx = m.end()
                pieces.append(t[idx:])
                assert '#'.join(pieces) == ra.sub('#', t), (pat_a, t)


def model_matches_documented_examples():
    from pbt import dsl
    L = lambda s: ['lit', s, True]  # noqa: E731
    cases = [
        (['cat', 'class', [['alt', 'class', [L('Hello'), L('Bye')]], L(' World'), ['q', 'opt', 'class', L('!'), 0, None, True]]],
         '(?:Hello|Bye) World!?'),
        (['anchor', 'lend', 'class', ['anchor', 'lstart', 'class', ['cat', 'class', [
            ['q', 'opt', 'class', ['cat', 'class', [['q', 'plus', 'class', ['alt', 'class', [L('a'), L('b')]], 0, None, True], L('c')]], 0, None, True],
            L('d')]]]], None),
        (['cap', 'class', ['grp', 'class', L('a'), False], 'n'], '(?P<n>a)'),
        (['grp', 'class', ['cap', 'class', L('a'), 'n'], False], '(?:a)'),
        (['look', 'npb', 'class', L('a'), [L('b')]], '(?<!b)a'),
    ]
    for tree, emitted in cases:
        p = dsl.build(tree)
        m = dsl.model(tree)
        if emitted is not None:
            assert str(p) == emitted, (str(p), emitted)
        ra, rb = re.compile(str(p), dsl.FLAGS), re.compile(m.ref, dsl.FLAGS)
        assert dsl.equivalent(ra, rb, ['Hello World!', 'Bye World', 'abcd', 'd', 'acd\nbd', 'a', 'ba', 'ca']) is None


def main():
    import_pregex()
    interval_algebra()
    scan_is_exact()
    noncapturing_wrapper_is_transparent()
    model_matches_documented_examples()
    print('selftest ok')


if __name__ == '__main__':
    main()

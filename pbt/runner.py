"""Runs one property check: shards -> worker processes -> merged evidence, VIOLATION lines, exit code.

  runner.py <ID> quick|thorough
  runner.py --replay <file>

exit 0: property held on everything explored (KNOWN-FINDING lines may be printed)
exit 1: violation found; one line `VIOLATION property=<ID> replay=<path>` per root-cause bucket
exit 2: harness error (never reported as a violation)
"""
import importlib
import json
import os
import subprocess
import sys
import tempfile
import time

VERIF = os.path.dirname(os.path.dirname(os.path.abspath(__file__)))
sys.path.insert(0, VERIF)

from pbt import findings  # noqa: E402
from pbt.common import Ctx, HarnessError, Violation, case_hash, derive_seed, import_pregex  # noqa: E402

PY = sys.executable
NPROC = int(os.environ.get('VERIF_JOBS', '16'))
WORKER = os.path.join(VERIF, 'pbt', 'worker.py')


def child_env(hash_seed):
    env = dict(os.environ)
    env['PYTHONHASHSEED'] = str(hash_seed)
    env['PYTHONDONTWRITEBYTECODE'] = '1'
    env['PYTHONWARNINGS'] = 'ignore'
    pp = [VERIF + '/.deps', os.environ.get('VERIF_REPO_SRC', '/repo/src')]
    env['PYTHONPATH'] = os.pathsep.join(pp)
    return env


def hash_seed_for(seed, prop, i):
    """Shard i runs under its own interpreter hash seed; 0 and 1 are always among them."""
    if i < 2:
        return i
    return derive_seed(seed, prop, 'hashseed', i) % 4294967296


def run_workers(prop, tier, seed, specs, shard_timeout):
    tmp = tempfile.mkdtemp(prefix=f'verif_{prop}_')
    pending = list(enumerate(specs))
    running = []
    results = []
    try:
        while pending or running:
            while pending and len(running) < NPROC:
                i, spec = pending.pop(0)
                hs = spec.get('hash_seed', hash_seed_for(seed, prop, i))
                out = os.path.join(tmp, f'shard_{i}.json')
                p = subprocess.Popen(
                    [PY, '-W', 'ignore', WORKER, prop, tier, str(seed), str(i), out],
                    stdin=subprocess.PIPE, stdout=subprocess.PIPE, stderr=subprocess.STDOUT,
                    env=child_env(hs), cwd=VERIF)
                p.stdin.write(json.dumps(spec).encode())
                p.stdin.close()
                running.append((i, spec, hs, p, out, time.time()))
            still = []
            for (i, spec, hs, p, out, t0) in running:
                rc = p.poll()
                if rc is None:
                    if time.time() - t0 > shard_timeout:
                        p.kill()
                        p.wait()
                        results.append({'shard': i, 'spec': spec, 'hash_seed': str(hs), 'status':
                                        {'ok': True}, 'inconclusive': [f'shard {i} cut short after {shard_timeout}s'],
                                        'evaluations': 0, 'nontrivial': [], 'counters': {}, 'samples': {},
                                        'violations': [], 'known_hits': {}, 'timeouts': 0, 'exhaustive': {},
                                        'wall_s': shard_timeout, 'cut': True})
                    else:
                        still.append((i, spec, hs, p, out, t0))
                    continue
                log = p.stdout.read().decode(errors='replace')
                if os.path.exists(out):
                    data = json.load(open(out))
                else:
                    data = {'shard': i, 'status': {'ok': False, 'error': f'worker exited {rc} without output',
                                                   'trace': log[-4000:]}}
                data['log'] = log[-2000:]
                results.append(data)
            running = still
            if running:
                time.sleep(0.05)
    finally:
        for (_, _, _, p, _, _) in running:
            p.kill()
        subprocess.call(['rm', '-rf', tmp])
    results.sort(key=lambda d: d.get('shard', 0))
    return results


def write_replay(prop, v):
    d = os.path.join(VERIF, 'replays', prop)
    os.makedirs(d, exist_ok=True)
    h = case_hash([v['kind'], v['case']])
    path = os.path.join(d, f'{h}.json')
    with open(path, 'w') as f:
        json.dump({'property': prop, 'kind': v['kind'], 'case': v['case'], 'hash_seed': v.get('hash_seed'),
                   'detail': v.get('detail', ''), 'shrunk': v.get('shrunk', True), 'prelude': bool(v.get('prelude', False)),
                   'repro': f'./check --replay replays/{prop}/{h}.json'}, f, indent=1, ensure_ascii=True)
    return os.path.relpath(path, VERIF)


def replay_case_subprocess(prop, case, hash_seed, use_findings, prelude=False):
    """Re-execute one case in a fresh interpreter under the given hash seed. Returns (verdict, text)."""
    code = (
        'import sys, json; sys.path.insert(0, %r)\n'
        'from pbt import runner\n'
        'sys.exit(runner.replay_inline(json.loads(sys.stdin.read())))\n' % VERIF)
    hs = hash_seed if hash_seed not in (None, 'random') else 0
    p = subprocess.run([PY, '-W', 'ignore', '-c', code], input=json.dumps(
        {'property': prop, 'case': case, 'use_findings': use_findings, 'prelude': prelude}).encode(),
        env=child_env(hs), cwd=VERIF, stdout=subprocess.PIPE, stderr=subprocess.STDOUT)
    return p.returncode, p.stdout.decode(errors='replace')


def replay_inline(req):
    import_pregex()
    prop = req['property']
    mod = importlib.import_module(f'pbt.props.{prop.lower()}')
    ctx = Ctx(prop, 'quick', 0, 0, os.environ.get('PYTHONHASHSEED', 'random'))
    if req.get('prelude'):
        from pbt.common import failed_calls_prelude
        failed_calls_prelude()
    try:
        if req.get('use_findings', True):
            mod.check_case(req['case'], ctx)
        else:
            with findings.disabled():
                mod.check_case(req['case'], ctx)
    except Violation as v:
        print(f'violated: {v.kind}: {v.detail[:1500]}')
        return 1
    except HarnessError:
        raise
    except Exception as e:  # noqa: BLE001
        from pbt.common import library_exception
        v = library_exception(e, req['case'])
        if v is None:
            raise
        print(f'violated: {v.kind}: {v.detail[:1500]}')
        return 1
    if ctx.known_hits:
        print('explained by known finding(s): ' + ', '.join(ctx.known_hits))
        return 3
    print('held')
    return 0


def known_finding_lines(prop):
    """Replay every listed finding's example; print KNOWN-FINDING for those that still fail."""
    lines, stale = [], []
    for f in findings.for_property(prop):
        ex = f['example']
        case = ex['case'] if isinstance(ex, dict) and 'case' in ex else ex
        hs = ex.get('hash_seed', 0) if isinstance(ex, dict) else 0
        rc, text = replay_case_subprocess(prop, case, hs, use_findings=False)
        if rc == 1:
            lines.append(f"KNOWN-FINDING: property={prop} id={f['id']} {f['text']}")
        elif rc == 0:
            stale.append(f['id'])
        else:
            raise HarnessError(f"replay of known finding {f['id']} failed: {text[-1500:]}")
    return lines, stale


def replay_regressions(prop):
    """Seconds-long replay tier: saved shrunk failures of repaired defects, re-executed without Hypothesis."""
    d = os.path.join(VERIF, 'replays', 'regression')
    failures = []
    if not os.path.isdir(d):
        return failures
    for name in sorted(os.listdir(d)):
        if not name.startswith(prop + '_') or not name.endswith('.json'):
            continue
        data = json.load(open(os.path.join(d, name)))
        rc, text = replay_case_subprocess(prop, data['case'], data.get('hash_seed'), True, bool(data.get('prelude')))
        if rc == 1:
            failures.append((os.path.join('replays', 'regression', name), text.strip()[:600]))
        elif rc not in (0, 3):
            raise HarnessError(f'regression replay {name} failed: {text[-1500:]}')
    return failures


def main(argv):
    if len(argv) >= 2 and argv[0] == '--replay':
        data = json.load(open(argv[1]))
        rc, text = replay_case_subprocess(data['property'], data['case'], data.get('hash_seed'), True, bool(data.get('prelude')))
        print(text.strip())
        if rc == 1:
            print(f"VIOLATION property={data['property']} replay={argv[1]}")
            return 1
        return 0 if rc in (0, 3) else 2

    prop, tier = argv[0].upper(), (argv[1] if len(argv) > 1 else os.environ.get('VERIF_TIER', 'quick'))
    if tier not in ('quick', 'thorough'):
        print(f'unknown tier {tier}', file=sys.stderr)
        return 2
    seed = int(os.environ.get('VERIF_SEED', '1') or '1')
    t0 = time.time()
    mod = importlib.import_module(f'pbt.props.{prop.lower()}')
    evidence_path = os.path.join(VERIF, 'evidence', f'{prop}.json')
    os.makedirs(os.path.dirname(evidence_path), exist_ok=True)
    if os.environ.get('VERIF_NO_EVIDENCE'):      # set only by tools/sensitivity.py (runs against mutated scratch copies)
        evidence_path = os.devnull

    regression_failures = []
    try:
        regression_failures = replay_regressions(prop)
        kf_lines, stale = known_finding_lines(prop)
        specs = mod.shards(tier)
        shard_timeout = getattr(mod, 'SHARD_TIMEOUT', {'quick': 240, 'thorough': 2400})[tier]
        results = run_workers(prop, tier, seed, specs, shard_timeout)
    except HarnessError as e:
        print(f'HARNESS ERROR: {e}', file=sys.stderr)
        return 2

    errors = [r for r in results if not r.get('status', {}).get('ok', False)]
    if errors:
        for r in errors[:3]:
            print(f"HARNESS ERROR in shard {r.get('shard')}: {r['status'].get('error')}\n{r['status'].get('trace', '')}",
                  file=sys.stderr)
        return 2

    evaluations = sum(r['evaluations'] for r in results)
    nontrivial = set()
    counters, known_hits, exhaustive, samples = {}, {}, {}, {}
    inconclusive, violations = [], []
    timeouts = 0
    for r in results:
        nontrivial.update(r['nontrivial'])
        for k, v in r['counters'].items():
            counters[k] = counters.get(k, 0) + v
        for k, v in r['known_hits'].items():
            known_hits[k] = known_hits.get(k, 0) + v
        for k, v in r['exhaustive'].items():
            exhaustive[k] = exhaustive.get(k, 0) + v
        samples.update(r['samples'])
        inconclusive.extend(r['inconclusive'])
        timeouts += r['timeouts']
        violations.extend(r['violations'])

    # one VIOLATION line per bucket (kind); prefer shrunk, then smallest serialisation
    by_kind = {}
    for v in violations:
        k = v['kind']
        size = (not v.get('shrunk', True), len(json.dumps(v['case'], default=repr)))
        if k not in by_kind or size < by_kind[k][0]:
            by_kind[k] = (size, v)
    out_lines = []
    for k in sorted(by_kind):
        v = by_kind[k][1]
        path = write_replay(prop, v)
        out_lines.append((f'VIOLATION property={prop} replay={path}', f'  kind={k} detail={v["detail"][:600]}' + (' [in a process that first made the failed-calls prelude: common.failed_calls_prelude]' if v.get('prelude') else '')))

    sample_list = [samples[h] for h in sorted(samples)[:10]]
    cov = {
        'evaluations': evaluations,
        'distinct_nontrivial': len(nontrivial),
        'rule': getattr(mod, 'RULE', ''),
        'samples': sample_list,
        'shards': len(results),
        'hash_seeds': sorted({str(r.get('hash_seed')) for r in results}),
        'class_counters': dict(sorted(counters.items())),
        'known_findings_hit': known_hits,
        'known_findings_still_failing': [ln.split(' id=')[1].split(' ')[0] for ln in kf_lines],
        'known_findings_no_longer_failing': stale,
        'exhaustive_subdomains': exhaustive,
        'exhaustive': False,
        'timeouts_skipped': timeouts,
        'inconclusive': inconclusive,
        'engine': getattr(mod, 'ENGINE', 'hypothesis 6.168 @seed per shard, database=None, deadline=None; one process per shard'),
        'violation_kinds': sorted(by_kind),
        'regression_replays_failed': [p for p, _ in regression_failures],
    }
    ev = {
        'property_id': prop, 'tier': tier, 'seed': seed, 'level': 'exploration', 'coverage': cov,
        'assumptions': getattr(mod, 'ASSUMPTIONS', []),
        'wall_s': round(time.time() - t0, 2), 'violations': len(by_kind) + len(regression_failures),
    }
    with open(evidence_path, 'w') as f:
        json.dump(ev, f, indent=1, ensure_ascii=True, default=repr)
        f.write('\n')

    for ln in kf_lines:
        print(ln)
    for fid in stale:
        print(f'note: listed finding {fid} no longer fails on this tree (entry is stale, nothing suppressed by it matters)')
    print(f'{prop} {tier}: shards={len(results)} evaluations={evaluations} distinct_nontrivial={len(nontrivial)} '
          f'known_hits={known_hits} timeouts={timeouts} wall={ev["wall_s"]}s')
    for path, text in regression_failures:
        out_lines.append((f'VIOLATION property={prop} replay={path}', f'  regression replay: {text}'))
    if out_lines:
        for a, b in out_lines:
            print(a)
            print(b)
        return 1
    if len(nontrivial) < 2 or evaluations < 1:
        print('HARNESS ERROR: vacuous run (fewer than 2 non-trivial cases)', file=sys.stderr)
        return 2
    return 0


if __name__ == '__main__':
    sys.exit(main(sys.argv[1:]))

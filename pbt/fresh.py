"""Fresh-module-state oracle.

`with fresh.state():` re-imports every pregex module from /repo's sources into brand-new module objects (fresh class
objects, fresh class-level attributes, empty caches) and makes them the ones that `import pregex...` and the DSL
builder see inside the block; on exit the long-lived modules (which carry the whole history of the worker process)
are put back. The same call evaluated inside and outside the block must give the same result: the value of an
expression depends only on its operands, not on what the process built before (C20).
"""
import contextlib
import sys

from pbt import dsl


def _pregex_modules():
    return {k: v for k, v in sys.modules.items() if k == 'pregex' or k.startswith('pregex.')}


@contextlib.contextmanager
def state():
    saved = _pregex_modules()
    saved_api = dsl._API
    for k in saved:
        del sys.modules[k]
    dsl._API = None
    try:
        import pregex.meta.essentials  # noqa: F401  (pulls in every core module, freshly executed)
        import pregex.core.tokens      # noqa: F401
        yield
    finally:
        for k in list(_pregex_modules()):
            del sys.modules[k]
        sys.modules.update(saved)
        dsl._API = saved_api


def essentials():
    """The pregex.meta.essentials module that is current *now* (long-lived outside state(), fresh inside)."""
    import importlib
    return importlib.import_module('pregex.meta.essentials')

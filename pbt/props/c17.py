"""C17 - Numeral and Word patterns enforce alphabet, length and affix exactly.

Numeral(base, n_min, n_max): exact match <=> every character is a digit of that base (letters in either case)
and n_min <= len <= n_max; in a text, the maximal word-character runs that are such numerals.
Word(min, max): exactly the maximal runs of word characters whose length is within the bounds.
WordContains / WordStartsWith / WordEndsWith: exactly the words containing / starting / ending with one of
the given strings, taken literally. Out-of-range parameters raise the documented exceptions.
"""
import itertools
import re

from hypothesis import strategies as st

from pbt import dsl, findings
from pbt.common import Violation, run_hypothesis

ID = 'C17'
RULE = ('Numeral: all bases 2-16 x all (n_min, n_max) over {0..5} / None (complete) x candidates over the base alphabet in both cases, '
        'the first character outside the alphabet, lengths around both bounds, and sentences of such tokens; Word: bounds 1..6/None x '
        'generated sentences (ASCII words for is_global=False, mixed for True); affix classes: 1-3 affixes, either word-character '
        'strings (full get_matches model over generated sentences) or strings with regex metacharacters (literal reading must match, '
        '"syntax" readings must not); invalid parameters. Non-trivial = the case has >= 1 accepted and >= 1 rejected candidate, or is an '
        'invalid-parameter case. Distinct = distinct serialised case.')
ASSUMPTIONS = ['empty affix strings, n_max = 0 and empty candidates are unspecified (degenerate \\b\\b patterns)',
               'for is_global=False only ASCII texts are judged; digits are ASCII',
               'numerals glued to other word characters are judged as part of their maximal word-character run']

DIGITS = '0123456789abcdef'


def violation(kind, case, detail, ctx):
    fid = findings.classify(ID, kind, case)
    if fid:
        ctx.known(fid)
        return
    raise Violation(kind, case, detail)


def numeral_ok(base, lo, hi, s):
    if not s or not s.isascii():
        return False
    return all(c.lower() in DIGITS[:base] for c in s) and lo <= len(s) and (hi is None or len(s) <= hi)


def words(text):
    return re.findall(r'\w+', text)


def check_numeral(case, ctx):
    import pregex.meta.essentials as es
    base, lo, hi = case['base'], case['n_min'], case['n_max']
    what = f'Numeral({base}, {lo}, {hi})'
    p = es.Numeral(base, lo, hi)
    if hi == 0:
        ctx.case(case, False)
        return
    rx = re.compile(str(p), dsl.FLAGS)
    acc = rej = 0
    for t in case['candidates']:
        if t == '':
            continue
        want = numeral_ok(base, lo, hi, t)
        got = rx.fullmatch(t) is not None
        acc += want
        rej += not want
        if got != want or p.is_exact_match(t) != want:
            violation('numeral_exact', dict(case, candidates=[t]), f'{what}.is_exact_match({t!r}) = {got}; model {want}', ctx)
            break
    toks = [t for t in case['candidates'] if t and re.fullmatch(r'\w+', t, re.A)]
    if toks and lo >= 1:
        seps = case.get('seps', [' '])
        text = ''.join(t + seps[i % len(seps)] for i, t in enumerate(toks))
        want = [w for w in re.findall(r'\w+', text, re.A) if numeral_ok(base, lo, hi, w)]
        got = p.get_matches(text)
        if got != want:
            violation('numeral_matches', dict(case, candidates=toks), f'{what}.get_matches({text!r}) = {got!r}; model {want!r}', ctx)
    nt = acc > 0 and rej > 0
    ctx.case(case, nt, sample={'call': what, 'candidates': case['candidates'][:8]} if nt else None)


def check_word(case, ctx):
    import pregex.meta.essentials as es
    lo, hi, glob = case['min'], case['max'], case['is_global']
    what = f'Word({lo}, {hi}, is_global={glob})'
    p = es.Word(lo, hi, is_global=glob)
    text = case['text']
    if not glob and not text.isascii():
        ctx.case(case, False)
        return
    ws = words(text)
    want = [w for w in ws if lo <= len(w) and (hi is None or len(w) <= hi)]
    got = p.get_matches(text)
    if got != want:
        violation('word_matches', case, f'{what}.get_matches({text!r}) = {got!r}; model {want!r}', ctx)
    nt = 0 < len(want) < len(ws)
    ctx.case(case, nt, sample={'call': what, 'text': text} if nt else None)


def check_affix(case, ctx):
    import pregex.meta.essentials as es
    cls, affixes, glob = case['cls'], case['affixes'], case['is_global']
    arg = affixes if len(affixes) != 1 or case.get('as_list') else affixes[0]
    what = f'{cls}({arg!r}, is_global={glob})' + (' [affixes passed as str-subclass instances]' if case.get('sub') else '')
    if case.get('sub'):
        arg = [dsl.TaggedStr(a) for a in arg] if isinstance(arg, list) else dsl.TaggedStr(arg)
    if any(a == '' for a in affixes):
        ctx.case(case, False)
        return
    p = getattr(es, cls)(arg, is_global=glob)

    def has(w, a):
        return {'WordContains': a in w, 'WordStartsWith': w.startswith(a), 'WordEndsWith': w.endswith(a)}[cls]
    nt = False
    if 'text' in case and all(re.fullmatch(r'\w+', a) for a in affixes):
        text = case['text']
        if not glob and not (text.isascii() and all(a.isascii() for a in affixes)):
            ctx.case(case, False)
            return
        ws = words(text)
        want = [w for w in ws if any(has(w, a) for a in affixes)]
        got = p.get_matches(text)
        if got != want:
            violation('affix_matches', case, f'{what}.get_matches({text!r}) = {got!r}; model {want!r}', ctx)
        nt = 0 < len(want) < len(ws)
    else:
        # affixes with metacharacters are taken literally
        for a in affixes:
            w1, w2 = case.get('w1', 'ab'), case.get('w2', 'yz')
            cand = {'WordContains': w1 + a + w2, 'WordStartsWith': a + w2, 'WordEndsWith': w1 + a}[cls]
            if not (re.match(r'\w', cand[0]) and re.match(r'\w', cand[-1])):
                continue
            if not glob and not cand.isascii():
                continue
            if not p.is_exact_match(cand):
                violation('affix_literal', case, f'{what}.is_exact_match({cand!r}) is False although the word contains the affix literally', ctx)
            nt = True
            # syntax readings of the affix must not be accepted in its place (unless another affix explains the word)
            from pbt.props.c01 import near
            for alt in near(a)[:30]:
                if alt == a or alt == '':
                    continue
                c2 = {'WordContains': w1 + alt + w2, 'WordStartsWith': alt + w2, 'WordEndsWith': w1 + alt}[cls]
                ok = False
                if re.fullmatch(r'\w+', c2):
                    ok = any(has(c2, b) for b in affixes)
                else:
                    # not a single word: may only match in full if it literally contains an affix in a way that... unspecified
                    continue
                if p.is_exact_match(c2) != ok:
                    violation('affix_syntax_reading', case, f'{what}.is_exact_match({c2!r}) = {not ok}; affix {a!r} must be read literally', ctx)
    ctx.case(case, nt, sample={'call': what, 'text': case.get('text')} if nt else None)


BAD = {'float': 1.5, 'str': '2', 'none': None, 'neg': -1, 'zero': 0, 'list': [1], 'big': 17}


def check_invalid(case, ctx):
    import pregex.meta.essentials as es
    target, kw = case['target'], {k: (BAD[v[1]] if isinstance(v, list) else v) for k, v in case['kw'].items()}
    kinds = {k: v[1] for k, v in case['kw'].items() if isinstance(v, list)}
    allowed = set()
    for k, b in kinds.items():
        if b in ('float', 'str', 'list') or (b == 'none' and k in ('base', 'n_min', 'min_chars')):
            allowed.add('InvalidArgumentTypeException')
        if b == 'neg' or (b == 'zero' and k in ('base', 'min_chars', 'max_chars')) or (b == 'big' and k == 'base'):
            allowed.add('InvalidArgumentValueException')
    lo = kw.get('n_min', kw.get('min_chars'))
    hi = kw.get('n_max', kw.get('max_chars'))
    if isinstance(lo, int) and isinstance(hi, int) and hi < lo:
        allowed.add('InvalidArgumentValueException')
    what = f'{target}(' + ', '.join(f'{k}={v!r}' for k, v in kw.items()) + ')'
    try:
        getattr(es, target)(**kw)
        got = None
    except Exception as ex:  # noqa: BLE001
        if type(ex).__name__ == 'CaseTimeout':
            raise
        got = type(ex).__name__
    if allowed and got not in allowed:
        violation('invalid_parameter', case, f'{what} -> {got or "a pattern"}; documented {sorted(allowed)}', ctx)
    if not allowed and got is not None:
        violation('valid_parameter_rejected', case, f'{what} raised {got}', ctx)
    ctx.case(case, bool(allowed), sample={'call': what, 'outcome': got})


AFFIX_BAD = ['none', 'int', 'float', 'bool', 'bytes', 'tuple', 'list', 'pregex', 'pregex_raw', 'token', 'class']


def affix_value(v):
    if v[0] == 's':
        return v[1]
    import pregex.core.classes as cl
    import pregex.core.tokens as tk
    from pregex.core.pre import Pregex
    return {'none': None, 'int': 1, 'float': 1.5, 'bool': True, 'bytes': b'a', 'tuple': ('a',), 'list': ['a'], 'pregex': Pregex('a'),
            'pregex_raw': Pregex('.', escape=False), 'token': tk.Space(), 'class': cl.AnyDigit()}[v[1]]


def check_invalid_affix(case, ctx):
    """':raises InvalidArgumentTypeException: At least one of the provided infixes is not a string' - whatever its position."""
    import pregex.meta.essentials as es
    items = [affix_value(v) for v in case['items']]
    arg = items if case['as_list'] else items[0]
    what = f"{case['cls']}({arg!r})"
    try:
        r = getattr(es, case['cls'])(arg)
        got = f'a pattern {str(r)[:60]!r}'
    except Exception as ex:  # noqa: BLE001
        if type(ex).__name__ == 'CaseTimeout':
            raise
        got = type(ex).__name__
    if got != 'InvalidArgumentTypeException':
        violation('invalid_affix', case, f'{what} -> {got}; documented InvalidArgumentTypeException (an affix that is not a string)', ctx)
    ctx.case(case, True, sample={'call': what, 'outcome': got})


def invalid_affix_cases():
    for cls in ('WordContains', 'WordStartsWith', 'WordEndsWith'):
        for bad in AFFIX_BAD:
            b = ['bad', bad]
            if bad != 'list':        # a bare list is the documented list form
                yield {'mode': 'invalid_affix', 'cls': cls, 'items': [b], 'as_list': False}
            for items in ([b], [b, ['s', 'a']], [['s', 'a'], b], [['s', 'a'], ['s', 'bc'], b], [['s', 'a'], b, ['s', 'bc']], [['s', 'a']] * 20 + [b]):
                yield {'mode': 'invalid_affix', 'cls': cls, 'items': items, 'as_list': True}


def check_case(case, ctx):
    ctx.count(f"mode:{case['mode']}")
    {'numeral': check_numeral, 'word': check_word, 'affix': check_affix, 'invalid': check_invalid,
     'invalid_affix': check_invalid_affix}[case['mode']](case, ctx)


WORDCH = list('abcxyzABZ019_') + list('éßΩж')


def sentence(ascii_only=False):
    ch = st.sampled_from(WORDCH[:13] if ascii_only else WORDCH)
    word = st.one_of(st.lists(ch, min_size=1, max_size=8), st.lists(ch, min_size=1, max_size=8), st.lists(ch, min_size=9, max_size=140)).map(''.join)
    sep = st.sampled_from([' ', ' ', ', ', '\n', '-', '. ', '!', "'", ' (', ') '])
    return st.lists(st.tuples(word, sep), min_size=1, max_size=8).map(lambda xs: ''.join(w + s for w, s in xs))


@st.composite
def gen_case(draw):
    mode = draw(st.sampled_from(['numeral', 'word', 'affix', 'affix', 'invalid']))
    if mode == 'numeral':
        base = draw(st.integers(2, 16))
        lo = draw(st.one_of(st.integers(0, 5), st.integers(0, 5), st.sampled_from([9, 10, 11, 16, 31, 32, 33, 64, 100])))
        hi = draw(st.one_of(st.none(), st.integers(max(lo, 1), lo + 3), st.sampled_from([lo + 9, lo + 10, 99, 100, 128, 255, 256, 1000]).filter(lambda v: v >= max(lo, 1))))
        alpha = DIGITS[:base] + DIGITS[:base].upper()
        outside = (DIGITS + 'g')[base] if base < 16 else 'g'
        ch = st.one_of(st.sampled_from(alpha), st.sampled_from(alpha), st.sampled_from(alpha), st.sampled_from([outside, outside.upper(), 'z', '_']))
        lens = st.sampled_from([max(lo - 1, 1), max(lo, 1), lo + 1, (hi or lo + 3), (hi or lo + 3) + 1, 1]).map(lambda n: min(n, 1100))
        cand = lens.flatmap(lambda n: st.lists(ch, min_size=n, max_size=n).map(''.join))
        return {'mode': 'numeral', 'base': base, 'n_min': lo, 'n_max': hi, 'candidates': draw(st.lists(cand, min_size=3, max_size=10)),
                'seps': draw(st.lists(st.sampled_from([' ', ', ', '\n', '-', '.', ' x ']), min_size=1, max_size=3))}
    if mode == 'word':
        glob = draw(st.booleans())
        lo = draw(st.one_of(st.integers(1, 6), st.integers(1, 6), st.sampled_from([9, 10, 11, 16, 32, 33, 64, 100])))
        hi = draw(st.one_of(st.none(), st.integers(lo, lo + 4), st.sampled_from([lo + 9, 99, 100, 128, 255, 256, 1000]).filter(lambda v: v >= lo)))
        return {'mode': 'word', 'min': lo, 'max': hi, 'is_global': glob, 'text': draw(sentence(ascii_only=not glob))}
    if mode == 'affix':
        glob = draw(st.booleans())
        cls = draw(st.sampled_from(['WordContains', 'WordStartsWith', 'WordEndsWith']))
        if draw(st.booleans()):
            ch = st.sampled_from(WORDCH[:13] if not glob else WORDCH)
            aff = st.lists(ch, min_size=1, max_size=3).map(''.join)
            return {'mode': 'affix', 'cls': cls, 'is_global': glob, 'affixes': draw(st.one_of(st.lists(aff, min_size=1, max_size=3), st.lists(aff, min_size=1, max_size=3), st.lists(aff, min_size=17, max_size=130))),
                    'as_list': draw(st.booleans()), 'sub': draw(st.sampled_from([False, False, True])), 'text': draw(sentence(ascii_only=not glob))}
        aff = dsl.literal_strategy(('meta',), 1, 4)
        singles = st.lists(st.sampled_from(list('-.,_^]\\[a+|')), min_size=2, max_size=4, unique=True)      # several one-character affixes
        affixes = draw(st.one_of(st.lists(aff, min_size=1, max_size=2), singles, singles))
        # further entries *derived* from an earlier one (its escaped spelling, a case variant, doubled, reversed, a proper prefix, itself
        # again): any step that compares or de-duplicates the caller's strings in some normalised form confuses exactly these
        for k in draw(st.lists(st.integers(0, 5), max_size=2)):
            a = affixes[draw(st.integers(0, len(affixes) - 1))]
            d = [re.escape(a), a.swapcase(), a + a, a[::-1], a[:-1], a][k]
            if d:
                affixes = affixes + [d]
        return {'mode': 'affix', 'cls': cls, 'is_global': glob, 'affixes': affixes,
                'as_list': draw(st.booleans()) or len(affixes) > 1, 'w1': draw(st.sampled_from(['ab', 'x', 'Z9'])), 'w2': draw(st.sampled_from(['yz', 'b', '_1']))}
    bad = st.sampled_from(sorted(BAD)).map(lambda k: ['bad', k])
    target = draw(st.sampled_from(['Numeral', 'Word']))
    if target == 'Numeral':
        kw = {'base': draw(st.one_of(st.integers(2, 16), bad)), 'n_min': draw(st.one_of(st.integers(0, 4), bad.filter(lambda b: b[1] not in ('zero', 'big')))),
              'n_max': draw(st.one_of(st.none(), st.integers(0, 6), bad.filter(lambda b: b[1] not in ('zero', 'none', 'big'))))}
    else:
        kw = {'min_chars': draw(st.one_of(st.integers(1, 4), bad.filter(lambda b: b[1] != 'big'))),
              'max_chars': draw(st.one_of(st.none(), st.integers(1, 6), bad.filter(lambda b: b[1] not in ('none', 'big'))))}
    return {'mode': 'invalid', 'target': target, 'kw': kw}


def numeral_grid(part, parts):
    i = 0
    for base in range(2, 17):
        alpha = DIGITS[:base]
        outside = (DIGITS + 'g')[base]
        for lo in range(0, 6):
            for hi in [None] + list(range(max(lo, 1), 6)):
                i += 1
                if i % parts != part:
                    continue
                cands = []
                for n in range(1, 8):
                    cands.append((alpha * 8)[-n:])
                    cands.append((alpha * 8)[-n:].upper())
                    cands.append(alpha[-1].upper() * n)
                    cands.append((alpha * 8)[:n - 1] + outside)
                    cands.append(outside.upper() + (alpha * 8)[:n - 1])
                yield {'mode': 'numeral', 'base': base, 'n_min': lo, 'n_max': hi, 'candidates': cands, 'seps': [' ', ', ']}


def shards(tier):
    quick = tier == 'quick'
    out = [{'mode': 'grid', 'part': i, 'parts': 4} for i in range(4)]
    for _ in range(12 if quick else 60):
        out.append({'mode': 'gen', 'examples': 1000 if quick else 8000})
    return out


def run_shard(spec, ctx):
    if spec['mode'] == 'grid':
        from pbt.common import run_enumeration
        run_enumeration(ctx, numeral_grid(spec['part'], spec['parts']), check_case, 'Numeral: all bases 2-16 x all (n_min, n_max) in 0..5/None')
        if spec['part'] == 0:
            run_enumeration(ctx, invalid_affix_cases(), check_case, 'affix classes x 11 non-str kinds x 7 positions (bare, first, middle, last, after 20 valid ones)')
    else:
        run_hypothesis(ctx, gen_case(), check_case, spec['examples'])

"""C15 - Integer patterns match exactly the canonical numerals inside the range.

Oracle (three-valued): a maximal ASCII digit run R that stands alone (text edge or a non-word character on
both sides) is matched iff it is canonical (no leading zero) and start <= int(R) <= end, with the sign rules
the docs and pinned tests fix; every returned match's digit part is a whole maximal digit run.
Exact-match on bare numerals; token lists separated by spaces/punctuation; prefix + extensible form.
"""
import re

from hypothesis import strategies as st

from pbt import dsl, findings
from pbt.common import Violation, guarded, run_hypothesis

ID = 'C15'
RULE = ('(1) complete enumeration: all ranges 0 <= start <= end <= 130 (quick: every 3rd start/end pair) x numerals 0..1400 with 0-2 '
        'leading zeros, as exact match; (2) Hypothesis: (start, end) over all digit-length combinations 1-6 biased to carries '
        '(..99/..00, 10^k +- 1), equal bounds, start = 0; token texts "[a][sign]digits" (signs "", +, -, ++, +-, a+, a-) separated by '
        'spaces / newlines / punctuation with numerals at and around both bounds, leading-zero variants and longer runs, incl. the very '
        'beginning and end of the text; 4 classes x include_sign x is_extensible (prefix + X must fully match prefix+numeral). '
        'Non-trivial = the case exercised >= 1 accepted and >= 1 rejected numeral. Distinct = distinct serialised case.')
ASSUMPTIONS = ['digit runs glued to letters/underscore are unspecified for the \\b-enclosed forms and not generated',
               'value 0 for Positive/Negative and a mandatory sign in extensible signed forms are unspecified',
               'sign rule: a sign is included only when the position before it is not a word boundary (docs + pinned tests)']


def canonical(r):
    return r.isascii() and r.isdigit() and (r == '0' or r[0] != '0')


def valid(r, start, end):
    return canonical(r) and start <= int(r) <= end


def violation(kind, case, detail, ctx):
    fid = findings.classify(ID, kind, case)
    if fid:
        ctx.known(fid)
        return
    raise Violation(kind, case, detail)


POSITIONAL = [2]


def make(variant, start, end, include_sign, ext):
    import pregex.meta.essentials as es
    from pbt import pat
    values = {'start': start, 'end': end, 'is_extensible': ext}
    if variant == 'Integer':
        values['include_sign'] = include_sign
    return pat.call_documented(getattr(es, variant), values, POSITIONAL[0])


SIGN_PRE = ['', '', '', '+', '-', '++', '+-', '-+', 'a+', 'a-', ',', '.', ':', ';', '(', '=', '*', '/', '#', '~', '\u2212', '\xb1']


def expected_token(variant, include_sign, pre, r, start, end):
    """What a non-extensible pattern returns for the token pre+r standing between separators; None = unspecified."""
    if not valid(r, start, end):
        return []
    if variant in ('PositiveInteger', 'NegativeInteger') and int(r) == 0:
        return None
    sign = pre[-1:] if pre and pre[-1] in '+-' else ''
    free = sign != '' and (len(pre) == 1 or pre[-2] in '+-')       # position before the sign is \B
    if variant == 'Integer' and not include_sign:
        return [r]
    if variant == 'Integer':
        if not sign:
            return [r]
        return [sign + r] if free else []
    if variant == 'PositiveInteger':
        if not sign:
            return [r]
        return ['+' + r] if (sign == '+' and free) else []
    if variant == 'NegativeInteger':
        return ['-' + r] if (sign == '-' and free) else []
    if variant == 'UnsignedInteger':
        return [r] if not sign else []
    raise ValueError(variant)


DEFAULT_START, DEFAULT_END = 0, 2147483647        # documented defaults of the Integer family


def check_defaults(case, ctx):
    """Arguments left out must behave exactly like the documented defaults (start=0, end=2147483647)."""
    import pregex.meta.essentials as es
    variant, kw = case['variant'], dict(case['kw'])
    p = getattr(es, variant)(**kw)
    start, end = kw.get('start', DEFAULT_START), kw.get('end', DEFAULT_END)
    acc = rej = 0
    for r in case['numerals']:
        if variant in ('PositiveInteger', 'NegativeInteger') and r.strip('0') == '':
            continue
        tok = ('-' if variant == 'NegativeInteger' else '') + r
        want = valid(r, start, end)
        got = p.is_exact_match(tok)
        acc += want
        rej += not want
        if got != want:
            violation('defaults', case, f"{variant}({', '.join(f'{k}={v}' for k, v in kw.items())}).is_exact_match({tok!r}) = {got}; with the "
                      f'documented defaults (start={start}, end={end}) the model says {want}', ctx)
            break
    ctx.count('mode:defaults')
    ctx.case(case, acc > 0 and rej > 0, sample={'call': f'{variant}({kw})', 'numerals': case['numerals'][:6]})


def check_case(case, ctx):
    mode = case['mode']
    POSITIONAL[0] = case.get('positional', 2)
    if mode == 'defaults':
        return check_defaults(case, ctx)
    start, end = case['start'], case['end']
    if mode == 'exact':
        p = make('Integer', start, end, False, False)
        rx = re.compile(str(p), dsl.FLAGS)
        acc = rej = 0
        for r in case['numerals']:
            want = valid(r, start, end)
            got = rx.fullmatch(r) is not None
            acc += want
            rej += not want
            if got != want or p.is_exact_match(r) != want:
                violation('exact_match', {'mode': 'exact', 'start': start, 'end': end, 'numerals': [r]},
                          f'Integer({start}, {end}).is_exact_match({r!r}) = {got}; canonical-and-in-range says {want}', ctx)
                break
        ctx.case(case, acc > 0 and rej > 0, sample={'call': f'Integer({start}, {end})', 'numerals': case['numerals'][:8]})
        return
    variant, inc, ext = case['variant'], case['include_sign'], case['ext']
    what = f'{variant}({start}, {end}' + (f', include_sign={inc}' if variant == 'Integer' else '') + f', is_extensible={ext})'
    p = make(variant, start, end, inc, ext)
    acc = rej = 0
    if mode == 'tokens':
        toks = case['tokens']            # [(pre, digits, separator-after)]
        text, want, unspec = '', [], False
        for (pre, r, sep) in toks:
            exp = expected_token(variant, inc, pre, r, start, end)
            if exp is None:
                unspec = True
                break
            want += exp
            acc += bool(exp)
            rej += not exp
            text += pre + r + sep
        if unspec:
            ctx.count('unspecified(zero for Positive/Negative)')
            ctx.case(case, False)
            return
        got = p.get_matches(text)
        if got != want:
            violation('get_matches', case, f'{what}.get_matches({text!r}) = {got!r}; model {want!r}', ctx)
        # every match's digit part is a whole maximal digit run
        for (g, s, e) in p.get_matches_and_pos(text):
            ds = s + (len(g) - len(g.lstrip('+-')))
            if (ds > 0 and text[ds - 1].isdigit()) or (e < len(text) and text[e].isdigit()):
                violation('partial_run', case, f'{what} matched {g!r} at ({s},{e}) in {text!r}: a proper part of a longer digit run', ctx)
    else:   # extensible: prefix + X fully matches prefix + numeral iff canonical and in range
        prefix = case['prefix']
        from pregex.core.pre import Pregex
        suffix = case.get('suffix', '')       # extended to the right as well: a non-digit pattern after the numeral ('px', '_', ' kg')
        q = Pregex(prefix) + make(variant, start, end, inc, True)
        if suffix:
            q = q + suffix
        for r in case['numerals']:
            want = valid(r, start, end)
            got = q.is_exact_match(prefix + r + suffix)
            acc += want
            rej += not want
            if got != want:
                violation('extensible', case, f'(Pregex({prefix!r}) + {what} + {suffix!r}).is_exact_match({prefix + r + suffix!r}) = {got}; model {want}', ctx)
                break
    ctx.count(f'variant:{variant}')
    nt = acc > 0 and rej > 0
    ctx.case(case, nt, sample={'call': what, 'case': {k: v for k, v in case.items() if k in ('tokens', 'prefix', 'numerals')}} if nt else None)


def bounds_strategy():
    def near_pow(t):
        k, d = t
        return max(0, 10 ** k + d)
    edge = st.tuples(st.one_of(st.integers(0, 6), st.integers(0, 6), st.integers(7, 15)), st.integers(-2, 2)).map(near_pow)
    anyv = st.one_of(edge, edge, st.integers(0, 130), st.integers(0, 999999), st.integers(0, 10 ** 12),
                     st.sampled_from([0, 9, 99, 100, 199, 200, 999, 1000, 2147483647, 2147483648, 4294967295, 10 ** 9, 10 ** 18 - 1]))
    return st.tuples(anyv, anyv).map(lambda t: (min(t), max(t)))


def numeral_near(start, end):
    def mk(t):
        base, d, zeros, tail = t
        v = max(0, base + d)
        return '0' * zeros + str(v) + tail
    near = st.tuples(st.one_of(st.sampled_from([start, end, (start + end) // 2, 0, 10 ** len(str(end))]),
                               st.sampled_from([start, end, (start + end) // 2, 0, 10 ** len(str(end))]),
                               st.integers(1, len(str(end)) + 1).flatmap(lambda n: st.integers(10 ** (n - 1) - 1, 10 ** n))), st.integers(-2, 2),
                     st.sampled_from([0, 0, 0, 1, 2]), st.sampled_from(['', '', '', '', '0', '9'])).map(mk)
    # any length up to one digit more than `end`, with or without leading zeros
    anylen = st.tuples(st.integers(1, len(str(end)) + 1), st.integers(0, 10 ** 6), st.sampled_from([0, 0, 1, 2])).map(
        lambda t: ('0' * t[2] + str(t[1] * 982451653 + 7))[:t[0]] or '0')
    return st.one_of(near, near, near, anylen)


@st.composite
def gen_case(draw):
    start, end = draw(bounds_strategy())
    if draw(st.integers(0, 4)) == 0:
        start = 0
    mode = draw(st.sampled_from(['tokens', 'tokens', 'tokens', 'ext', 'exact', 'defaults']))
    if mode == 'defaults':
        variant = draw(st.sampled_from(['Integer', 'PositiveInteger', 'NegativeInteger', 'UnsignedInteger']))
        kw = draw(st.one_of(st.just({}), st.integers(0, 10 ** 9).map(lambda v: {'start': v}), st.integers(0, 10 ** 10).map(lambda v: {'end': v})))
        s0, e0 = kw.get('start', DEFAULT_START), kw.get('end', DEFAULT_END)
        if s0 > e0:
            kw = {}
            s0, e0 = DEFAULT_START, DEFAULT_END
        around = st.one_of(numeral_near(s0, e0), st.sampled_from([2 ** 30, 2 ** 30 + 1, 2 ** 31 - 2, 2 ** 31 - 1, 2 ** 31, 2 ** 32 - 1, 2 ** 32, 10 ** 9, 1500000000,
                                                                       2147483646, 2147483647, 2147483648, 999999999, 3000000000]).map(str),
                           st.integers(0, 2 ** 33).map(str))
        return {'mode': 'defaults', 'variant': variant, 'kw': kw, 'numerals': draw(st.lists(around, min_size=4, max_size=12))}
    num = numeral_near(start, end)
    if mode == 'exact':
        return {'mode': 'exact', 'start': start, 'end': end, 'numerals': draw(st.lists(num, min_size=3, max_size=12))}
    variant = draw(st.sampled_from(['Integer', 'Integer', 'PositiveInteger', 'NegativeInteger', 'UnsignedInteger']))
    inc = draw(st.booleans()) if variant == 'Integer' else False
    if mode == 'ext':
        variant = draw(st.sampled_from(['Integer', 'UnsignedInteger']))
        return {'mode': 'ext', 'start': start, 'end': end, 'variant': variant, 'include_sign': False, 'ext': True,
                'prefix': draw(st.sampled_from(['id', 'x=', '#', 'a', 'No. ', '(', 'é'])),
                'suffix': draw(st.sampled_from(['', '', 'px', '_', 'st', ' kg', ')', 'é', '.', '%', '\n', 'x1'])),
                'numerals': draw(st.lists(num, min_size=3, max_size=10))}
    tok = st.tuples(st.sampled_from(SIGN_PRE), num, st.sampled_from([' ', ' ', ' ', '\n', ' ! ', ', ', ' (', ') ', ' . ', ',', ';', ')', '.', ':']))
    toks = draw(st.lists(tok, min_size=1, max_size=8))
    toks = [list(t) for t in toks]
    if draw(st.booleans()):
        toks[-1][2] = ''       # numeral at the very end of the text
    return {'mode': 'tokens', 'start': start, 'end': end, 'variant': variant, 'include_sign': inc, 'ext': False, 'tokens': toks,
            'positional': draw(st.sampled_from([0, 2, 2, 3, 4]))}


def numerals_all():
    out = []
    for v in range(1401):
        for z in range(3):
            out.append('0' * z + str(v))
    return out


CTX_RANGES = [(0, 5), (0, 12), (0, 1000), (0, 99999), (0, 2147483647), (1, 5000), (7, 123456), (10, 10 ** 9), (0, 10 ** 6 - 1)]
CTX_PREVS = ['0', '00', '1', '9', '10', '007', '100', '999', '5000']
CTX_SEPS = [' ', '  ', '\n', '.', ':', ', ', ' x ', ';', ' . ', ')(', '\t', '-']


def run_context_grid(spec, ctx):
    """Two numerals in one text: every (earlier token, separator, later numeral) combination over small alphabets, for ranges of
    every digit length 1..10 - "wherever the numeral sits", including right after another numeral, a bare 0, a leading-zero run.
    The pattern is built once per (range, variant); a mismatch is reported through check_case on the two-token case."""
    n = i = 0
    for (start, end) in CTX_RANGES:
        laters = sorted({str(v) for v in (0, 1, 5, 7, 9, 10, 12, 99, 100, 999, 1000, start, end, end + 1, max(start - 1, 0), end // 10, end // 100)} | {'00', '01', '012'})
        for variant in ('Integer', 'UnsignedInteger', 'PositiveInteger'):
            i += 1
            if i % spec['parts'] != spec['part']:
                continue

            def one(start=start, end=end, variant=variant, laters=laters):
                nonlocal n
                p = make(variant, start, end, False, False)
                for prev in CTX_PREVS:
                    for sep in CTX_SEPS:
                        for r in laters:
                            pre = '-' if sep == '-' else ''
                            toks = [['', prev, '' if sep == '-' else sep], [pre, r, '']]
                            exp = [expected_token(variant, False, t[0], t[1], start, end) for t in toks]
                            if any(e is None for e in exp):
                                continue
                            n += 1
                            text = prev + sep + r
                            if p.get_matches(text) != exp[0] + exp[1]:
                                check_case({'mode': 'tokens', 'start': start, 'end': end, 'variant': variant, 'include_sign': False, 'ext': False,
                                            'positional': 0, 'tokens': toks}, ctx)
                ctx.case(['ctx', start, end, variant], True, sample={'call': f'{variant}({start}, {end})', 'texts': '<earlier token><separator><later numeral>'})
            guarded(ctx, {'mode': 'tokens', 'start': start, 'end': end, 'variant': variant, 'include_sign': False, 'ext': False, 'positional': 0,
                          'tokens': [['', '0', ' '], ['', str(start), '']]}, one, secs=120)
    ctx.evaluations += n
    ctx.exhaustive['two-numeral texts: 9 ranges x 3 variants x 9 earlier tokens x 12 separators x ~20 later numerals'] = n


def shards(tier):
    quick = tier == 'quick'
    out = [{'mode': 'context_grid', 'part': k, 'parts': 2} for k in range(2)]
    parts = 7 if quick else 32
    for i in range(parts):
        out.append({'mode': 'enumerate', 'part': i, 'parts': parts, 'step': 3 if quick else 1})
    for _ in range(7 if quick else 32):
        out.append({'mode': 'gen', 'examples': 450 if quick else 3000})
    return out


SHARD_TIMEOUT = {'quick': 240, 'thorough': 3000}


def run_shard(spec, ctx):
    if spec['mode'] == 'enumerate':
        nums = numerals_all()
        vals = [(r, canonical(r), int(r)) for r in nums]
        n = k = 0
        for start in range(0, 131):
            for end in range(start, 131):
                k += 1
                if k % spec['parts'] != spec['part'] or (spec['step'] > 1 and (start * 131 + end) % spec['step']):
                    continue
                def one_range(start=start, end=end, k=k):
                    nonlocal n
                    p = make('Integer', start, end, False, False)
                    rx = re.compile(str(p), dsl.FLAGS)
                    bad = None
                    for (r, canon, v) in vals:
                        n += 1
                        if (rx.fullmatch(r) is not None) != (canon and start <= v <= end):
                            bad = r
                            break
                    if bad is not None:
                        check_case({'mode': 'exact', 'start': start, 'end': end, 'numerals': [bad]}, ctx)
                    else:
                        ctx.evaluations += len(vals) - 1
                        ctx.case([start, end], True, sample={'call': f'Integer({start}, {end})', 'numerals': '0..1400 with 0-2 leading zeros'}
                                 if k % 500 == 0 else None)
                guarded(ctx, {'mode': 'exact', 'start': start, 'end': end, 'numerals': [str(start), str(end + 1), '0' + str(end)]}, one_range, secs=120)
        ctx.exhaustive['(range, numeral) pairs: ranges within 0..130 x numerals 0..1400 x 0-2 leading zeros'] = n
    elif spec['mode'] == 'context_grid':
        run_context_grid(spec, ctx)
    else:
        run_hypothesis(ctx, gen_case(), check_case, spec['examples'])

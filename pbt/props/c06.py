"""C06 - class constructors denote exactly the requested character sets.

Oracle: membership over the *whole* code-point range (0..0x10FFFF, scan not sample) of the emitted class
text equals the model interval set: the argument characters / the closed range / the documented set /
the complement of the Any* counterpart; classes documented only by a name are held to (must, may)
bounds plus the complement relation. Invalid arguments must raise the documented exception.
Every shard runs under its own PYTHONHASHSEED.
"""
from hypothesis import strategies as st

from pbt import charsets as cs
from pbt import findings, treecheck
from pbt.common import Violation, run_enumeration, run_hypothesis

ID = 'C06'
RULE = ('Hypothesis: AnyFrom/AnyButFrom with 1-6 arguments (and with 8-100 arguments drawn from realistic alphabets) and AnyBetween/AnyButBetween, arguments drawn from bracket/regex '
        'metacharacters, ASCII alphanumerics, whitespace/control, code points 0 / 0x10FFFF / surrogate edges, BMP and astral '
        'characters and all token instances; invalid arguments (multi-character and empty strings, non-strings, non-token '
        'Pregex, start >= end, no arguments); plus complete enumeration of every named Any*/AnyBut* class, every token class, '
        'and every ordered pair of a 24-character metacharacter alphabet through AnyFrom and AnyBetween. Membership is decided '
        'by scanning all 1,114,112 code points. Non-trivial = an argument is a metacharacter, a token or non-ASCII (or the case '
        'is a named/token class). Distinct = distinct serialised constructor call.')
ASSUMPTIONS = ['code points that only the Unicode-aware \\d \\s \\w add are masked when the class is documented through such a shorthand',
               'a one-character non-token Pregex as argument is unspecified',
               'classes documented only by name (German, Greek, Cyrillic, Korean, CJK) are held to (must, may) bounds']

META = list('\\]^[-/$.()|?*+{}')
EDGE = [chr(0), chr(0x7f), chr(0x80), chr(0xD7FF), chr(0xD800), chr(0xDFFF), chr(0xE000), chr(0xFFFF), chr(0x10000), chr(0x10FFFF)]
PAIR_ALPHABET = list('\\]^[-/$.()|?*+{}a~ \n') + ['\x00', '\U0010ffff', 'é', '٣']


def dsl_special():
    from pbt import dsl
    return dsl.SPECIAL_UNI


def char_st():
    return st.one_of(st.sampled_from(META), st.sampled_from(META), st.sampled_from(list('abzAZ09_ ,\n\t\r\x0b\x0c')),
                     st.sampled_from(EDGE), st.characters(), st.sampled_from(list('äß€٣א')), st.sampled_from(dsl_special()))


def arg_st(invalid):
    good = st.one_of(char_st().map(lambda c: ['c', c]), char_st().map(lambda c: ['c', c]),
                     st.sampled_from(sorted(cs.TOKENS)).map(lambda t: ['t', t]),
                     st.one_of(st.sampled_from(sorted(META)), char_st()).map(lambda c: ['pc', c]))
    if not invalid:
        return good
    bad = st.one_of(st.sampled_from([['s', 'ab'], ['s', ''], ['s', '\\\\'], ['s', '\\a'], ['p', 'ab'], ['p', 'a'], ['bad', 'none'],
                                     ['bad', 'int'], ['bad', 'list'], ['bad', 'bytes'], ['bad', 'float']]))
    return st.one_of(good, good, good, good, good, bad)


def ctor_strategy(invalid=True):
    a = arg_st(invalid)
    frm = st.lists(a, min_size=0 if invalid else 1, max_size=6)
    near = st.tuples(char_st(), st.integers(-3, 40)).map(
        lambda t: (['c', t[0]], ['c', chr(max(0, min(0x10FFFF, ord(t[0]) + t[1])))]))
    pair = st.one_of(st.tuples(a, a), near, near)
    def cluster(t):
        base, offs = t
        return [['c', chr(max(0, min(0x10FFFF, ord(base) + o)))] for o in offs]
    clustered = st.tuples(st.one_of(char_st(), st.sampled_from(list('éĀ٣אΩ한\U0001F600~\x7f\x80'))),
                          st.lists(st.integers(-4, 4), min_size=2, max_size=6)).map(cluster)
    import string
    pools = [string.punctuation, string.printable, string.ascii_letters + string.digits + '-._', string.ascii_letters + string.digits + '+/=',
             ''.join(chr(c) for c in range(0x20, 0x7f)), ''.join(chr(c) for c in range(0xA0, 0x180)), string.hexdigits + ':.-[]',
             ''.join(chr(c) for c in range(0x3b1, 0x3ca)) + string.digits, string.digits + '\xb2\xb3\xb9\u2070\u2460\u0663ab',
             string.ascii_lowercase + '\u017f\u0131\u212a\xb5', string.whitespace + '\x85\xa0\u2028\u1680\x1c', string.digits + string.ascii_letters + '_\u2126\xaa']
    big = st.tuples(st.sampled_from(pools), st.integers(0, 2 ** 30), st.integers(8, 100), st.booleans()).map(_big_args)
    # the conventional alphabets themselves, whole or as a contiguous slice (hex digits in either case, base32/36/62/64, letters,
    # digits+letters ...): sets that *look* like one run but cross the 9->A, Z->a, z->{ gaps
    base = string.digits + string.ascii_uppercase + string.ascii_lowercase
    conventional = [string.digits + 'ABCDEF', string.digits + 'abcdef', string.hexdigits, string.ascii_uppercase + '234567', base, string.digits + string.ascii_lowercase,
                    string.digits + string.ascii_uppercase, string.ascii_letters, string.ascii_lowercase + string.ascii_uppercase, base + '+/', base + '-_',
                    ''.join(chr(c) for c in range(0x30, 0x7b))]
    sliced = st.tuples(st.sampled_from(conventional), st.integers(0, 70), st.integers(2, 70), st.booleans()).map(
        lambda t: [['c', c] for c in (sorted(t[0][t[1] % len(t[0]):][:t[2]]) if t[3] else t[0][t[1] % len(t[0]):][:t[2]])])
    big = st.one_of(big, big, sliced)
    return st.one_of(
        big.map(lambda xs: ['from', xs]), big.map(lambda xs: ['butfrom', xs]),
        clustered.map(lambda xs: ['from', xs]), clustered.map(lambda xs: ['butfrom', xs]),
        frm.map(lambda xs: ['from', xs]), frm.map(lambda xs: ['from', xs]), frm.map(lambda xs: ['butfrom', xs]),
        pair.map(lambda p: ['between', p[0], p[1]]), pair.map(lambda p: ['between', p[0], p[1]]),
        pair.map(lambda p: ['butbetween', p[0], p[1]]),
    )


def _big_args(t):
    """8-100 arguments from a realistic alphabet (punctuation, printable, hostname / base64 alphabets, Latin-1 ...): a
    pseudo-random subset (derived from the drawn integer, so the case stays a pure function of Hypothesis's choices),
    in shuffled or sorted order."""
    import random
    pool, seed, k, shuffled = t
    rng = random.Random(seed)
    chars = rng.sample(pool, len(pool) if k % 5 == 0 else min(k, len(pool)))
    if not shuffled:
        chars.sort()
    return [['c', c] for c in chars]


def named_cases():
    out = [['named', 'Any']]
    for n in sorted(cs.NAMED):
        out.append(['named', n])
        out.append(['named', 'AnyBut' + n[3:]])
    for g in (False, True):
        out.append(['word', g])
        out.append(['butword', g])
    for t in sorted(cs.TOKENS):
        out.append(['t', t])
    return out


def violation(kind, e, detail, ctx):
    fid = findings.classify(ID, kind, {'expr': e})
    if fid:
        ctx.known(fid)
        return
    raise Violation(kind, {'expr': e}, f'{cs.render(e)}: {detail}')


def check_expr(e, ctx):
    what = cs.render(e)
    if e[0] == 't':            # token class: exactly its one character
        p = cs.build(e)
        try:
            got = cs.scan(str(p))
        except cs.NotACharSet as ex:
            return violation('not_a_charset', e, f'token text {str(p)!r}: {ex}', ctx)
        want = cs.from_chars(cs.TOKENS[e[1]])
        if got != want:
            violation('wrong_set', e, f'token text {str(p)!r} matches {cs.show(got)}, documented character {cs.show(want)}', ctx)
        return 'ok'
    expect, unspec, val = None, False, None
    try:
        val = cs.model(e)
    except cs.Raises as r:
        expect = r
    except cs.Unspecified:
        unspec = True
    try:
        p = cs.build(e)
    except treecheck.documented_exceptions() as ex:
        name = type(ex).__name__
        if unspec or (expect is not None and name in expect.names):
            return 'expected_exception'
        if name == 'InvalidArgumentTypeException' and cs.has_plain_pregex_arg(e):
            return 'expected_exception'      # "neither a string of length one nor a token instance", read strictly
        return violation('wrong_exception', e, f'raised {name}: {ex}; documented outcome: {expect or "a class"}', ctx)
    except BaseException as ex:  # noqa: BLE001
        if type(ex).__name__ == 'CaseTimeout':
            raise
        return violation(f'unexpected_exception:{type(ex).__name__}', e, f'{type(ex).__name__}: {ex}', ctx)
    if unspec:
        return 'unspec'
    text = str(p)
    if expect is not None:
        return violation('missing_exception', e, f'documented {"/".join(expect.names)}, got pattern {text!r}', ctx)
    name = e[1] if e[0] == 'named' else None
    base = ('Any' + name[len('AnyBut'):]) if name and name.startswith('AnyBut') else name
    try:
        if base in cs.LOOSE:
            got = cs.scan(text)
            must, may = cs.LOOSE[base]
            if name.startswith('AnyBut'):
                # complement relation with the Any* counterpart, over the whole range
                import pregex.core.classes as cl
                pos = cs.scan(str(getattr(cl, base)()))
                if got != cs.complement(pos):
                    return violation('wrong_set', e, f'{text!r} is not the complement of {base}()', ctx)
                got = pos
            miss, extra = cs.diff(must, got), cs.diff(got, may)
            if miss or extra:
                return violation('wrong_set', e, f'{text!r}: documented members not matched {cs.show(miss)}; matched outside the alphabet/block {cs.show(extra)}', ctx)
            return 'ok'
        d = cs.compare(e, text, val)
    except cs.NotACharSet as ex:
        return violation('not_a_charset', e, f'emitted {text!r} does not denote a character set: {ex}', ctx)
    if d:
        return violation('wrong_set', e, d, ctx)
    return 'ok'


def is_nontrivial(e):
    if e[0] in ('named', 'word', 'butword', 't'):
        return True
    args = e[1] if e[0] in ('from', 'butfrom') else [e[1], e[2]]
    for a in args:
        if a[0] in ('t', 'pc') or (a[0] == 'c' and len(a[1]) == 1 and (a[1] in META or ord(a[1]) > 127 or ord(a[1]) < 32)):
            return True
    return False


def check_case(case, ctx):
    e = case['expr']
    r = check_expr(e, ctx)
    ctx.count(f'outcome:{r}')
    ctx.count(f'ctor:{e[0]}')
    nt = is_nontrivial(e) and r in ('ok', 'expected_exception')
    ctx.case(case, nt, sample={'expr': cs.render(e), 'outcome': r} if nt else None)


def pair_cases(part, parts):
    i = 0
    for a in PAIR_ALPHABET:
        for b in PAIR_ALPHABET:
            for ctor in ('from', 'butfrom', 'between', 'butbetween'):
                if i % parts == part:
                    if ctor in ('from', 'butfrom'):
                        yield {'expr': [ctor, [['c', a], ['c', b]]]}
                    else:
                        yield {'expr': [ctor, ['c', a], ['c', b]]}
                i += 1


BOUNDARIES = [0, 1, 0x7f, 0x80, 0xff, 0x100, 0x7fff, 0x8000, 0xd7ff, 0xe000, 0xfffe, 0xffff, 0x10000, 0x10fffe, 0x10ffff]


def boundary_cases():
    for a in BOUNDARIES:
        for b in BOUNDARIES:
            for ctor in ('between', 'butbetween'):
                yield {'expr': [ctor, ['c', chr(a)], ['c', chr(b)]]}
            yield {'expr': ['from', [['c', chr(a)], ['c', chr(b)]]]}


def shards(tier):
    quick = tier == 'quick'
    out = [{'mode': 'named'}]
    parts = 5
    for p in range(parts):
        out.append({'mode': 'pairs', 'part': p, 'parts': parts})
    for _ in range(10 if quick else 58):
        out.append({'mode': 'gen', 'examples': 500 if quick else 3000})
    return out


def run_shard(spec, ctx):
    if spec['mode'] == 'named':
        run_enumeration(ctx, ({'expr': e} for e in named_cases()), check_case, 'every named Any*/AnyBut* class and every token class')
        run_enumeration(ctx, boundary_cases(), check_case, 'AnyBetween / AnyButBetween / AnyFrom over all ordered pairs of 15 conventional code-point boundaries')
    elif spec['mode'] == 'pairs':
        run_enumeration(ctx, pair_cases(spec['part'], spec['parts']), check_case,
                        f'ordered pairs over {len(PAIR_ALPHABET)} characters x 4 constructors (part)')
    else:
        run_hypothesis(ctx, st.fixed_dictionaries({'expr': ctor_strategy()}), check_case, spec['examples'])

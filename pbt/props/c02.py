"""C02 - composition keeps every sub-pattern intact (automatic grouping).

Oracle: the emitted pattern is equivalent (match spans + captured substrings on targeted texts, group
count and names) to the fully parenthesised composition of the operands' own emitted texts; all
spellings (drawn mix, all-class, all-method, operator/on_right=False) agree with that reference.
"""
from hypothesis import strategies as st

from pbt import dsl, findings, treecheck
from pbt.common import Violation, run_hypothesis

ID = 'C02'
RULE = ('Hypothesis recursive strategy over DSL expression trees (<= 6 leaves; literals heavy in regex '
        'metacharacters, classes, tokens, empties, all operators, per-node spelling class/method/operator; '
        'swarm feature subsets per shard; plus "wide" shards: n-ary Concat/Either of 17-129 leaf operands under 1-2 further operators; plus a complete grid of 10-13 capturing groups x two-digit backreference x digit-leading literal) x ~28 subject texts derived from witnesses of the tree and its '
        'sub-trees. Non-trivial = >= 2 contributing operator nodes AND >= 1 text with a non-empty reference '
        'match AND removing the reference\'s parentheses changes behaviour on the texts (grouping matters). '
        'Distinct = distinct serialised (tree, text seed).')
ASSUMPTIONS = [
    "Python's re is the semantic oracle; wrapping a sub-pattern in a flag-less (?:...) never changes spans or groups",
    'leaves contribute their own standalone emitted text (escaping is C01, class contents C06/C07)',
    'Either with an empty receiver/first alternative, duplicate group names, repeating a pattern that merely '
    'contains an anchor are unspecified and not compared',
]
OWNED = ('diff:match', 'diff:groups', 'not_compilable')


def shards(tier):
    n = 13 if tier == 'quick' else 56
    ex = 1500 if tier == 'quick' else 8000
    out = [{'examples': ex, 'max_leaves': 12 if i % 5 == 4 else (6 if i % 3 else 8)} for i in range(n)]
    out += [{'mode': 'wide', 'examples': 250 if tier == 'quick' else 1500} for _ in range(2 if tier == 'quick' else 7)]
    out += [{'mode': 'manycaps'}]
    return out


def manycaps_cases():
    """Complete small grid: 10-13 groups x two-digit backreference x following literal starting with each digit."""
    for n in (10, 11, 13):
        for ref in range(10, n + 1):
            for d in '0123456789a':
                for sp in ('class', 'method', 'op'):
                    yield {'tree': dsl.many_captures_case(n, ref, d + 'x', sp), 'tseed': 0, 'xt': ['abcdefghijklm' + 'jklm'[ref - 10] + d + 'x']}


def respell(node, how):
    """Same expression with every node in one spelling ('class' | 'method' | 'alt': operator / on_right=False)."""
    n = list(node)
    k = n[0]
    if k == 'cat':
        n[1] = {'class': 'class', 'method': 'method', 'alt': 'op'}[how]
        n[2] = [respell(x, how) for x in n[2]]
    elif k == 'alt':
        n[1] = {'class': 'class', 'method': 'method', 'alt': 'method_left'}[how]
        n[2] = [respell(x, how) for x in n[2]]
    elif k == 'enc':
        n[1] = 'class' if how == 'class' else 'method'
        n[2] = respell(n[2], how)
        n[3] = [respell(x, how) for x in n[3]]
    elif k == 'q':
        if how == 'alt':
            n[2] = 'mul' if n[1] == 'exactly' or n[2] in ('mul', 'rmul') else 'method'
        else:
            if n[2] in ('mul', 'rmul'):
                n[1] = 'exactly'
            n[2] = how
        n[3] = respell(n[3], how)
    elif k in ('grp', 'cap'):
        n[1] = 'class' if how == 'class' else 'method'
        n[2] = respell(n[2], how)
    elif k == 'anchor':
        n[2] = 'class' if how == 'class' else 'method'
        n[3] = respell(n[3], how)
    elif k == 'look':
        n[2] = 'class' if how == 'class' else 'method'
        n[3] = respell(n[3], how)
        n[4] = [respell(x, how) for x in n[4]]
    return n


def check_case(case, ctx):
    tree, tseed = case['tree'], case.get('tseed', 0)
    if case.get('ref'):
        tree = dsl.with_reference(tree, case['ref']) or tree
        if tree is not case['tree']:
            ctx.count('with_backreference_or_conditional')
    tree = dsl.entangle(tree, case.get('entangle'))
    variants = [('drawn', tree)] + [(h, respell(tree, h)) for h in ('class', 'method', 'alt')]
    first = None
    for how, t in variants:
        o = treecheck.evaluate(t, tseed, extra_texts=case.get('xt', ()))
        if first is None:
            first = o
        ctx.count(f'outcome:{o.kind.split(":")[0]}')
        if o.kind in OWNED:
            c = {'tree': t, 'tseed': tseed, 'xt': case.get('xt', []), 'ref': None}
            fid = findings.classify(ID, o.kind, c)
            if fid:
                ctx.known(fid)
                continue
            raise Violation(o.kind, c, f'{dsl.render(t)} [{how} spelling]: {o.detail}')
        if o.kind not in ('ok',):
            ctx.count(f'left_to_owner:{o.kind}')
    o = first
    nontrivial = False
    if o.kind == 'ok' and o.model is not None:
        gm = treecheck.grouping_matters(tree, o)
        ctx.count('ok_with_match' if o.matched else 'ok_without_match')
        if gm:
            ctx.count('grouping_matters')
        nontrivial = o.model.nops >= 2 and o.matched and gm
        for kd in dsl.kinds(tree):
            ctx.count(f'has:{kd.split(":")[0]}')
    ctx.case(case, nontrivial, sample={'expr': dsl.render(tree), 'emitted': o.pattern, 'reference': o.ref}
             if nontrivial else None)


def strategy(spec, ctx):
    feats = dsl.swarm_features(ctx.seed, ctx.shard_index)
    ctx.count('features:' + ','.join(sorted(feats)))
    return st.fixed_dictionaries({
        'tree': st.one_of(*[dsl.tree_strategy(feats, max_leaves=spec.get('max_leaves', 6))] * 5, dsl.hostile_tree(5), dsl.deep_tree_strategy(feats)),
        'tseed': st.integers(0, 2 ** 20),
        'ref': dsl.refspec_strategy(feats),
        'entangle': dsl.entangle_strategy(),
    })


def run_shard(spec, ctx):
    if spec.get('mode') == 'manycaps':
        from pbt.common import run_enumeration
        run_enumeration(ctx, manycaps_cases(), check_case, '10-13 capturing groups x two-digit backreference x digit-leading literal x spelling')
        return
    if spec.get('mode') == 'wide':
        feats = dsl.swarm_features(ctx.seed, ctx.shard_index)
        strat = st.fixed_dictionaries({'tree': st.one_of(dsl.wide_tree_strategy(feats), dsl.wide_tree_strategy(feats, leaf=dsl.bracket_heavy_leaf(feats))),
                                       'tseed': st.integers(0, 2 ** 20)})
        run_hypothesis(ctx, strat, check_case, spec['examples'], label='wide')
        return
    run_hypothesis(ctx, strategy(spec, ctx), check_case, spec['examples'])

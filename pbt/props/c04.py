"""C04 - quantifier bounds, greediness and spellings are exact.

Oracle A (direct, independent of re's own quantifier semantics): for rigid operands (literal, class, token,
alternation of equal-length distinct literals, group/capture of those) with witnesses w: Q.is_exact_match(w^k)
<=> lo <= k <= hi for every k in 0..hi+2; on w^K the match at offset 0 covers min(K, hi) copies when greedy
and lo copies when lazy.
Oracle B (differential): arbitrary operands (already quantified, alternated, grouped, empty-matching) against
(?:reference(X)){lo,hi} (+'?' when lazy); every spelling (class, method, *, n*; m=None, n==m, (0,1), n in {0,1}
shortcuts) is compared with the same canonical reference, hence with each other.
Rejections: non-int, bool, negative, inverted bounds raise the documented exception.
"""
import itertools
import re

from hypothesis import strategies as st

from pbt import dsl, findings, treecheck
from pbt.common import Violation, run_enumeration, run_hypothesis

ID = 'C04'
RULE = ('operand x quantifier kind x spelling (class, method, * , n *) x bounds x greediness: all bound pairs over {0,1,2,3,4,7} '
        'and None enumerated completely for 6 rigid operands, plus Hypothesis-generated operand trees (<= 4 leaves, incl. '
        'already-quantified / alternated / grouped / empty-matching ones), larger bounds and invalid bounds (float, str, bool, '
        'None where not allowed, negative, inverted). Non-trivial = bounds other than {2,3} / + / ? or a non-literal operand, '
        'with >= 1 accepted and >= 1 rejected repetition count exercised (oracle A) or >= 1 text matched (oracle B) or a '
        'documented rejection. Distinct = distinct serialised case.')
ASSUMPTIONS = ['oracle A trusts only re.fullmatch/match of the emitted pattern on k-fold repetitions of fixed witnesses',
               'oracle B trusts re\'s {n,m} semantics on a fully parenthesised reference',
               'when both a type defect and a value defect are injected either documented exception is accepted']

VALS = [0, 1, 2, 3, 4, 7]
RIGID = [
    (['lit', 'ab', True], ['ab']),
    (['lit', 'a.', False], ['a.']),
    (['cls', ['named', 'AnyDigit']], ['1', '7']),
    (['tok', 'Newline'], ['\n']),
    (['alt', 'class', [['lit', 'ab', True], ['lit', 'cd', True]]], ['ab', 'cd']),
    (['cap', 'class', ['alt', 'method', [['lit', 'x', False], ['lit', 'y', True]]], None], ['x', 'y']),
]
import fractions  # noqa: E402
BAD = {'float': 2.0, 'str': '2', 'bool': True, 'none': None, 'neg': -1, 'list': [1],
       # further non-int kinds: special floats (what an internal "no upper bound" might be spelled as), non-integral and huge floats,
       # other numeric types, bytes, tuples
       'float_frac': 1.5, 'inf': float('inf'), 'ninf': float('-inf'), 'nan': float('nan'), 'float_big': 1e308, 'false': False, 'complex': 2j,
       'fraction': fractions.Fraction(2, 1), 'bytes': b'2', 'tuple': (1, 2), 'str_empty': '', 'neg_big': -(10 ** 12)}


def decode(v):
    if isinstance(v, list) and len(v) == 2 and v[0] == 'bad':
        return BAD[v[1]]
    return v


def violation(kind, case, detail, ctx):
    fid = findings.classify(ID, kind, case)
    if fid:
        ctx.known(fid)
        return
    raise Violation(kind, case, detail)


def spelled(case):
    kind, sp, n, m, greedy = case['q']
    return ['q', kind, sp, case['x'], decode(n), decode(m), greedy]


def check_case(case, ctx):
    tree = spelled(case)
    kind, sp = tree[1], tree[2]
    o = treecheck.evaluate(tree, case.get('tseed', 0))
    ctx.count(f'outcome:{o.kind.split(":")[0]}')
    what = dsl.render(tree)
    if o.kind.startswith(('diff:', 'not_compilable', 'missing_exception:Invalid', 'undocumented_use:Invalid', 'unexpected_exception')):
        violation(o.kind.split(':')[0] if not o.kind.startswith('diff') else o.kind, case, f'{what}: {o.detail}', ctx)
    nontrivial = False
    if o.kind == 'expected_exception' and o.exc and o.exc.startswith('Invalid'):
        ctx.count('documented_rejection')
        nontrivial = True
    # Oracle A on rigid operands
    ws = case.get('witnesses')
    if ws and o.kind == 'ok' and o.pattern is not None:
        n, m = tree[4], tree[5]
        lo, hi = dsl.canon_bounds('exactly' if sp in ('mul', 'rmul') else kind, n, m)
        greedy = tree[6]
        rx = re.compile(o.pattern, dsl.FLAGS)
        top = (hi if hi is not None else lo + 3) + 2
        acc = rej = 0
        for k in range(0, top + 1):
            text = ''.join(ws[i % len(ws)] for i in range(k))
            want = lo <= k and (hi is None or k <= hi)
            got = rx.fullmatch(text) is not None
            acc += want
            rej += not want
            if got != want:
                violation('repetition_count', case, f'{what} printed {o.pattern!r}: fullmatch of {k} repetitions ({text!r}) is {got}, '
                          f'bounds are ({lo},{hi})', ctx)
                break
        K = top + 1
        text = ''.join(ws[i % len(ws)] for i in range(K))
        mt = rx.match(text)
        unit = len(ws[0])
        want_copies = (min(K, hi) if hi is not None else K) if (greedy or lo == hi) else lo
        if mt is None or len(mt.group(0)) != want_copies * unit:
            violation('greediness', case, f'{what} printed {o.pattern!r}: on {K} repetitions the match at 0 covers '
                      f'{None if mt is None else len(mt.group(0)) // unit} copies, expected {want_copies} '
                      f'({"greedy" if greedy else "lazy"}, bounds ({lo},{hi}))', ctx)
        nontrivial = acc >= 1 and rej >= 1
        ctx.count('oracleA')
    elif o.kind == 'ok':
        nontrivial = o.matched
    q = case['q']
    usual = (q[0] in ('plus', 'opt')) or (q[0] == 'range' and (q[2], q[3]) == (2, 3))
    nontrivial = nontrivial and (not usual or case['x'][0] != 'lit')
    ctx.count(f'kind:{kind}/{sp}')
    ctx.case(case, nontrivial, sample={'expr': what, 'outcome': o.kind, 'emitted': o.pattern} if nontrivial else None)


def enumerated(part, parts):
    i = 0
    for (x, ws) in RIGID:
        for greedy in (True, False):
            combos = []
            for n in VALS:
                combos += [('exactly', 'class', n, None), ('exactly', 'method', n, None), ('exactly', 'mul', n, None),
                           ('exactly', 'rmul', n, None), ('atleast', 'class', n, None), ('atleast', 'method', n, None),
                           ('atmost', 'class', 0, n), ('atmost', 'method', 0, n), ('range', 'class', n, None), ('range', 'method', n, None)]
                for m in VALS:
                    combos += [('range', 'class', n, m), ('range', 'method', n, m)]
            combos += [('opt', 'class', 0, None), ('opt', 'method', 0, None), ('star', 'class', 0, None), ('star', 'method', 0, None),
                       ('plus', 'class', 0, None), ('plus', 'method', 0, None), ('atmost', 'class', 0, None), ('atmost', 'method', 0, None)]
            for (kind, sp, n, m) in combos:
                if i % parts == part:
                    yield {'x': x, 'witnesses': ws, 'q': [kind, sp, n, m, greedy]}
                i += 1


def bound():
    good = st.one_of(st.integers(0, 5), st.sampled_from(VALS), st.integers(0, 12), st.sampled_from([16, 31, 32, 64, 99, 100, 255, 256, 1000]))
    bad = st.sampled_from(sorted(BAD)).map(lambda k: ['bad', k])
    return st.one_of(good, good, good, good, bad)


def strategy(spec, ctx):
    if spec['mode'] == 'rigid':
        x = st.sampled_from(RIGID).map(lambda t: (t[0], t[1]))
    else:
        feats = [f for f in dsl.swarm_features(ctx.seed, ctx.shard_index) if f not in ('anchor',)]
        x = st.one_of(*[dsl.tree_strategy(feats, max_leaves=4, look_kinds=('nfb', 'npb', 'neb'))] * 5, dsl.hostile_tree(4)).map(lambda t: (t, None))
    q = st.tuples(st.sampled_from(['opt', 'star', 'plus', 'exactly', 'atleast', 'atmost', 'range', 'range']),
                  st.sampled_from(['class', 'method', 'class', 'method', 'mul', 'rmul']), bound(),
                  st.one_of(st.none(), bound()), st.booleans()).map(fix_q)
    return st.tuples(x, q, st.integers(0, 999)).map(lambda t: {'x': t[0][0], 'witnesses': t[0][1], 'q': t[1], 'tseed': t[2]})


def fix_q(t):
    kind, sp, n, m, g = t
    if sp in ('mul', 'rmul'):
        kind = 'exactly'
    return [kind, sp, n, m, g]


def shards(tier):
    quick = tier == 'quick'
    out = [{'mode': 'enumerate', 'part': p, 'parts': 4} for p in range(4)]
    for mode, n in (('rigid', 4), ('tree', 8)):
        for _ in range(n if quick else n * 4):
            out.append({'mode': mode, 'examples': 1200 if quick else 8000})
    return out


def run_shard(spec, ctx):
    if spec['mode'] == 'enumerate':
        run_enumeration(ctx, enumerated(spec['part'], spec['parts']), check_case,
                        'all bound pairs over {0,1,2,3,4,7}/None x all spellings x greediness x 6 rigid operands')
    else:
        run_hypothesis(ctx, strategy(spec, ctx), check_case, spec['examples'], label=spec['mode'])

"""C09 - only anchored / positive-lookaround patterns are refused repetition.

Oracle (three-valued): a repeating quantifier (max > 1 or unbounded) applied *directly* to a
MatchAt*/FollowedBy/PrecededBy/EnclosedBy instance must raise CannotBeRepeatedException; applied to an
operand that contains no anchor or positive lookaround it must not; non-repeating quantifiers are
accepted for every operand. Operands that merely contain an anchor deeper down are unspecified.
"""
import itertools

from hypothesis import strategies as st

from pbt import dsl, findings, treecheck
from pbt.common import Violation, run_enumeration, run_hypothesis

ID = 'C09'
RULE = ('operand x quantifier: operands are (a) every string of length <= 2 (quick) / <= 3 (thorough) over a 17-character '
        'metacharacter alphabet, enumerated completely, and generated longer literals; (b) generated assertion-free DSL '
        'trees (negative lookarounds and word boundaries allowed); (c) direct MatchAt*/FollowedBy/PrecededBy/EnclosedBy '
        'instances, including ones applied to the empty pattern; quantifiers: every class/method/* spelling, bounds 0..4/None, '
        'both greediness settings. Non-trivial = the operand is not a letters-only literal. Distinct = distinct serialised case.')
ASSUMPTIONS = ['"applied directly" is read at the value level: identity wrappers (Concat of one operand, Exactly 1, '
               'empty operands) do not hide an assertion',
               'operands that contain an anchor or positive lookaround below the top node are unspecified']
OWNED_PREFIX = ('missing_exception:CannotBeRepeatedException', 'undocumented_use:CannotBeRepeatedException')

ALPHABET = list('\\^$()[]{}?+*.|/-a')
QUANTS = [
    ('opt', 'class', 0, None, True), ('opt', 'method', 0, None, False),
    ('star', 'class', 0, None, True), ('star', 'method', 0, None, False),
    ('plus', 'class', 0, None, False), ('plus', 'method', 0, None, True),
    ('exactly', 'class', 0, None, True), ('exactly', 'method', 1, None, True), ('exactly', 'class', 3, None, True),
    ('exactly', 'mul', 0, None, True), ('exactly', 'mul', 1, None, True), ('exactly', 'rmul', 2, None, True),
    ('exactly', 'rmul', 1, None, True), ('exactly', 'rmul', 0, None, True),
    ('atleast', 'class', 0, None, True), ('atleast', 'method', 1, None, False), ('atleast', 'class', 2, None, True),
    ('atmost', 'class', 0, 0, True), ('atmost', 'method', 0, 1, False), ('atmost', 'class', 0, 3, True),
    ('atmost', 'method', 0, None, True),
    ('range', 'class', 0, 0, True), ('range', 'method', 0, 1, True), ('range', 'class', 1, 1, False),
    ('range', 'method', 1, 2, False), ('range', 'class', 2, 4, True), ('range', 'class', 0, None, True),
    ('range', 'method', 2, None, False), ('range', 'class', 0, 2, False), ('range', 'method', 3, 3, True),
]


def make_tree(case):
    kind, sp, n, m, greedy = case['q']
    return ['q', kind, sp, case['op'], n, m, greedy]


def check_case(case, ctx):
    tree = make_tree(case)
    o = treecheck.evaluate(tree, case.get('tseed', 0))
    ctx.count(f'outcome:{o.kind}')
    if o.kind.startswith(OWNED_PREFIX):
        fid = findings.classify(ID, o.kind.split(':')[0], case)
        if fid:
            ctx.known(fid)
        else:
            raise Violation(o.kind.split(':')[0], case, f'{dsl.render(tree)}: {o.detail}')
    op = case['op']
    nontrivial = not (op[0] == 'lit' and op[1].isalpha()) and o.kind in ('ok', 'expected_exception')
    ctx.case(case, nontrivial, sample={'expr': dsl.render(tree), 'outcome': o.kind, 'emitted': o.pattern} if nontrivial else None)


def quant_strategy():
    return st.one_of(
        st.sampled_from(QUANTS),
        st.tuples(st.sampled_from(['opt', 'star', 'plus', 'exactly', 'atleast', 'atmost', 'range']),
                  st.sampled_from(['class', 'method', 'mul', 'rmul']), st.integers(0, 4),
                  st.one_of(st.none(), st.integers(0, 4)), st.booleans()).map(_fix_q))


def _fix_q(t):
    kind, sp, n, m, g = t
    if sp in ('mul', 'rmul'):
        kind = 'exactly'
    if kind == 'range' and m is not None and m < n:
        n, m = m, n
    return (kind, sp, n, m, g)


def strategy(spec, ctx):
    mode = spec['mode']
    if mode == 'literal':
        op = st.tuples(dsl.literal_strategy(dsl.ALL_FEATURES, 1, 8), st.booleans()).map(lambda t: ['lit', t[0], t[1]])
    elif mode == 'assertion_free':
        feats = [f for f in dsl.ALL_FEATURES if f != 'anchor']
        op = dsl.tree_strategy(feats, max_leaves=4, look_kinds=('nfb', 'npb', 'neb'))
    else:
        small = dsl.tree_strategy([f for f in dsl.ALL_FEATURES if f not in ('anchor', 'look')], max_leaves=2)
        anchors = st.tuples(st.sampled_from(['start', 'end', 'lstart', 'lend']), st.sampled_from(['class', 'method']),
                            small).map(lambda t: ['anchor', t[0], t[1], t[2]])
        looks = st.tuples(st.sampled_from(['fb', 'pb', 'eb']), st.sampled_from(['class', 'method']), small,
                          st.lists(st.tuples(dsl.literal_strategy(dsl.ALL_FEATURES, 1, 3), st.booleans()).map(
                              lambda t: ['lit', t[0], t[1]]), min_size=1, max_size=2)).map(
            lambda t: ['look', t[0], t[1], t[2], t[3]])
        op = st.one_of(anchors, looks)
    return st.fixed_dictionaries({'op': op, 'q': quant_strategy().map(list), 'tseed': st.integers(0, 999)})


def enumerated(maxlen, part, parts):
    i = 0
    for length in range(1, maxlen + 1):
        for chars in itertools.product(ALPHABET, repeat=length):
            s = ''.join(chars)
            for q in QUANTS:
                if i % parts == part:
                    yield {'op': ['lit', s, (i // parts) % 2 == 0], 'q': list(q)}
                i += 1


def shards(tier):
    quick = tier == 'quick'
    out = []
    parts = 4 if quick else 16
    for part in range(parts):
        out.append({'mode': 'enumerate', 'maxlen': 2 if quick else 3, 'part': part, 'parts': parts})
    for mode in ('literal', 'assertion_free', 'direct'):
        for _ in range(4 if quick else 12):
            out.append({'mode': mode, 'examples': 1200 if quick else 8000})
    return out


def run_shard(spec, ctx):
    if spec['mode'] == 'enumerate':
        run_enumeration(ctx, enumerated(spec['maxlen'], spec['part'], spec['parts']), check_case,
                        f"all literals of length <= {spec['maxlen']} over {len(ALPHABET)} chars x {len(QUANTS)} quantifier spellings")
    else:
        run_hypothesis(ctx, strategy(spec, ctx), check_case, spec['examples'], label=spec['mode'])

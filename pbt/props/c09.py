"""C09 - only anchored / positive-lookaround patterns are refused repetition.

Oracle (three-valued): a repeating quantifier (max > 1 or unbounded) applied *directly* to a
MatchAt*/FollowedBy/PrecededBy/EnclosedBy instance must raise CannotBeRepeatedException; applied to an
operand that contains no anchor or positive lookaround it must not; non-repeating quantifiers are
accepted for every operand. Operands that merely contain an anchor deeper down are unspecified.
"""
import itertools

from hypothesis import strategies as st

from pbt import dsl, findings, treecheck
from pbt.common import Violation, run_enumeration, run_hypothesis

ID = 'C09'
RULE = ('operand x quantifier: operands are (a) every string of length <= 2 (quick) / <= 3 (thorough) over a 17-character '
        'metacharacter alphabet, enumerated completely, and generated longer literals; (b) generated assertion-free DSL '
        'trees (negative lookarounds and word boundaries allowed); (c) direct MatchAt*/FollowedBy/PrecededBy/EnclosedBy '
        'instances, including ones applied to the empty pattern; quantifiers: every class/method/* spelling, bounds 0..4/None, '
        'both greediness settings. Non-trivial = the operand is not a letters-only literal. Distinct = distinct serialised case.')
ASSUMPTIONS = ['"applied directly" is read at the value level: identity wrappers (Concat of one operand, Exactly 1, '
               'empty operands) do not hide an assertion',
               'operands that contain an anchor or positive lookaround below the top node are unspecified']
OWNED_PREFIX = ('missing_exception:CannotBeRepeatedException', 'undocumented_use:CannotBeRepeatedException')

ALPHABET = list('\\^$()[]{}?+*.|/-a')
QUANTS = [
    ('opt', 'class', 0, None, True), ('opt', 'method', 0, None, False),
    ('star', 'class', 0, None, True), ('star', 'method', 0, None, False),
    ('plus', 'class', 0, None, False), ('plus', 'method', 0, None, True),
    ('exactly', 'class', 0, None, True), ('exactly', 'method', 1, None, True), ('exactly', 'class', 3, None, True),
    ('exactly', 'mul', 0, None, True), ('exactly', 'mul', 1, None, True), ('exactly', 'rmul', 2, None, True),
    ('exactly', 'rmul', 1, None, True), ('exactly', 'rmul', 0, None, True),
    ('atleast', 'class', 0, None, True), ('atleast', 'method', 1, None, False), ('atleast', 'class', 2, None, True),
    ('atmost', 'class', 0, 0, True), ('atmost', 'method', 0, 1, False), ('atmost', 'class', 0, 3, True),
    ('atmost', 'method', 0, None, True),
    ('range', 'class', 0, 0, True), ('range', 'method', 0, 1, True), ('range', 'class', 1, 1, False),
    ('range', 'method', 1, 2, False), ('range', 'class', 2, 4, True), ('range', 'class', 0, None, True),
    ('range', 'method', 2, None, False), ('range', 'class', 0, 2, False), ('range', 'method', 3, 3, True),
]


def make_tree(case):
    kind, sp, n, m, greedy = case['q']
    return ['q', kind, sp, case['op'], n, m, greedy]


def check_collision(case, ctx):
    """Repeatability is a property of the *value*, not of what was built earlier: for an operand X with emitted text t,
    the escaped literal Pregex(t) (the same characters, now plain text) is always repeatable while X keeps its own
    verdict, in whichever order the two are built and quantified."""
    from pregex.core.pre import Pregex
    x = case['op']
    try:
        m = dsl.model(x)
    except (dsl.Unspec, dsl.Expect):
        ctx.case(case, False)
        return
    except Exception:  # noqa: BLE001
        ctx.case(case, False)
        return
    kind, sp, n, mm, greedy = case['q']
    lo, hi = dsl.canon_bounds('exactly' if sp in ('mul', 'rmul') else kind, n, mm)
    repeating = hi is None or hi > 1

    def quantify(p):
        try:
            dsl.REFS[:] = [p]
            dsl.build(['q', kind, sp if sp != 'class' else 'method', ['ref', 0], n, mm, greedy])
            return None
        except Exception as e:  # noqa: BLE001
            return type(e).__name__
        finally:
            dsl.REFS[:] = []
    order = case.get('order', 0)
    px = dsl.build(x)
    t = str(px)
    if t == '':
        ctx.case(case, False)
        return
    results = {}
    for who in (('lit', 'x', 'lit') if order == 0 else ('x', 'lit', 'x')):
        p = Pregex(t) if who == 'lit' else dsl.build(x)
        results.setdefault(who, []).append(quantify(p))
    for r in results['lit']:
        if r == 'CannotBeRepeatedException':
            v = Violation('undocumented_use', case, f'the plain literal Pregex({t!r}) was refused repetition ({dsl.QMETHOD[kind]}) '
                          f'{"after" if order else "before"} {dsl.render(x)} (same text, unescaped) was built in the same process')
            if not findings.classify(ID, v.kind, case):
                raise v
    want = 'CannotBeRepeatedException' if (repeating and m.direct_assert and not m.empty) else None
    if not (repeating and m.has_assert and not m.direct_assert):
        for r in results['x']:
            if (r == 'CannotBeRepeatedException') != (want is not None):
                v = Violation('missing_exception' if want else 'undocumented_use', case, f'{dsl.render(x)} quantified by {dsl.QMETHOD[kind]}: {r}, '
                              f'expected {want}; the literal Pregex({t!r}) was built in the same process')
                if not findings.classify(ID, v.kind, case):
                    raise v
    ctx.count('collision_cases')
    ctx.case(case, True, sample={'operand': dsl.render(x), 'same_text_literal': t[:60], 'order': order})


def check_case(case, ctx):
    if case.get('mode') == 'collision':
        return check_collision(case, ctx)
    tree = make_tree(case)
    o = treecheck.evaluate(tree, case.get('tseed', 0))
    ctx.count(f'outcome:{o.kind}')
    if o.kind.startswith(OWNED_PREFIX):
        fid = findings.classify(ID, o.kind.split(':')[0], case)
        if fid:
            ctx.known(fid)
        else:
            raise Violation(o.kind.split(':')[0], case, f'{dsl.render(tree)}: {o.detail}')
    op = case['op']
    nontrivial = not (op[0] == 'lit' and op[1].isalpha()) and o.kind in ('ok', 'expected_exception')
    ctx.case(case, nontrivial, sample={'expr': dsl.render(tree), 'outcome': o.kind, 'emitted': o.pattern} if nontrivial else None)


def quant_strategy():
    return st.one_of(
        st.sampled_from(QUANTS),
        st.tuples(st.sampled_from(['opt', 'star', 'plus', 'exactly', 'atleast', 'atmost', 'range']),
                  st.sampled_from(['class', 'method', 'mul', 'rmul']), st.integers(0, 4),
                  st.one_of(st.none(), st.integers(0, 4)), st.booleans()).map(_fix_q))


def _fix_q(t):
    kind, sp, n, m, g = t
    if sp in ('mul', 'rmul'):
        kind = 'exactly'
    if kind == 'range' and m is not None and m < n:
        n, m = m, n
    return (kind, sp, n, m, g)


def strategy(spec, ctx):
    mode = spec['mode']
    if mode == 'collision':
        lit = st.one_of(dsl.literal_strategy(dsl.ALL_FEATURES, 1, 8), st.lists(dsl.char_strategy(dsl.ALL_FEATURES), min_size=30, max_size=50).map(''.join),
                        st.lists(st.sampled_from(list('abc xyz.$^')), min_size=30, max_size=45).map(''.join))
        leaf = st.tuples(lit, st.booleans()).map(lambda t: ['lit', t[0], t[1]])
        anchors = st.tuples(st.sampled_from(['start', 'end', 'lstart', 'lend']), st.sampled_from(['class', 'method']), leaf).map(
            lambda t: ['anchor', t[0], t[1], t[2]])
        looks = st.tuples(st.sampled_from(['fb', 'pb', 'eb', 'nfb', 'npb']), st.sampled_from(['class', 'method']), leaf, leaf).map(
            lambda t: ['look', t[0], t[1], t[2], [t[3]]])
        return st.fixed_dictionaries({'mode': st.just('collision'), 'op': st.one_of(anchors, anchors, looks, leaf),
                                      'q': quant_strategy().map(list), 'order': st.integers(0, 1)})
    if mode == 'literal':
        op = st.tuples(dsl.literal_strategy(dsl.ALL_FEATURES, 1, 8), st.booleans()).map(lambda t: ['lit', t[0], t[1]])
    elif mode == 'assertion_free':
        feats = [f for f in dsl.ALL_FEATURES if f != 'anchor']
        op = dsl.tree_strategy(feats, max_leaves=4, look_kinds=('nfb', 'npb', 'neb'))
    else:
        small = st.one_of(dsl.tree_strategy([f for f in dsl.ALL_FEATURES if f not in ('anchor', 'look')], max_leaves=2), dsl.hostile_tree(4))
        anchors = st.tuples(st.sampled_from(['start', 'end', 'lstart', 'lend']), st.sampled_from(['class', 'method']),
                            small).map(lambda t: ['anchor', t[0], t[1], t[2]])
        # the match pattern may be empty: a lone lookaround, whose own text then starts the emitted pattern
        lone = st.one_of(st.integers(0, len(dsl.EMPTY_SPELLINGS) - 1).map(lambda i: ['empty', i]), st.just(['lit', '', True]))
        looks = st.tuples(st.sampled_from(['fb', 'pb', 'eb']), st.sampled_from(['class', 'method']), st.one_of(small, small, small, lone),
                          st.lists(st.tuples(dsl.literal_strategy(dsl.ALL_FEATURES, 1, 3), st.booleans()).map(
                              lambda t: ['lit', t[0], t[1]]), min_size=1, max_size=2)).map(
            lambda t: ['look', t[0], t[1], t[2], t[3]])
        op = st.one_of(anchors, looks)
    return st.fixed_dictionaries({'op': op, 'q': quant_strategy().map(list), 'tseed': st.integers(0, 999)})


def enumerated(maxlen, part, parts):
    i = 0
    for length in range(1, maxlen + 1):
        for chars in itertools.product(ALPHABET, repeat=length):
            s = ''.join(chars)
            for q in QUANTS:
                if i % parts == part:
                    yield {'op': ['lit', s, (i // parts) % 2 == 0], 'q': list(q)}
                i += 1


GRID_QUANTS = [QUANTS[i] for i in (0, 2, 4, 8, 10, 11, 13, 15, 18, 20, 23, 25, 26)]      # one of each kind / spelling, repeating and not


def assertion_grid(part, parts):
    """Every direct assertion shape x every printable ASCII character (and a few pairs) as the text next to the assertion
    syntax x a quantifier of every kind: anchors on c, lookarounds with match c / assertion c, and *lone* lookarounds
    (empty match pattern), whose own text - '(?=' + c - is what the emitted pattern starts with."""
    chars = [chr(c) for c in range(32, 127)] + ['\n', '\t', '\x00', '\u00e9', '!=', '<!', '=!', '<=', '?!', '!a', ':a', 'P<', '#)']
    i = 0
    for c in chars:
        lit = ['lit', c, True]
        shapes = [['anchor', k, 'class', lit] for k in ('start', 'end', 'lstart', 'lend')]
        for k in ('fb', 'pb', 'eb', 'nfb', 'npb', 'neb'):
            shapes.append(['look', k, 'class', ['lit', 'x', True], [lit]])
            shapes.append(['look', k, 'method', lit, [['lit', 'y', True]]])
            if k in ('fb', 'pb', 'eb'):
                shapes.append(['look', k, 'class', ['empty', 0], [lit]])        # lone lookaround
                shapes.append(['look', k, 'class', ['lit', '', True], [lit, ['lit', 'z', True]]])
        for shape in shapes:
            for q in GRID_QUANTS:
                if i % parts == part:
                    yield {'op': shape, 'q': list(q)}
                i += 1
    # the same shapes over small operands that a text-based reading misparses: a literal backslash next to a bracket class that lists
    # parentheses / '|' / ']' / a raw newline, alone or as one alternative
    for members in (')', '(', '|', ')]', '(|', ')\n', '()'):
        cls = ['cls', ['from', [['c', m] for m in members]]]
        for bs in (['tok', 'Backslash'], ['lit', '\\', True]):
            for operand in (['cat', 'class', [bs, cls]], ['alt', 'class', [['cat', 'op', [bs, cls]], ['lit', 'x', True]]],
                            ['alt', 'method', [['lit', 'x', True], ['cat', 'class', [bs, cls]]]], ['cat', 'method', [cls, bs]]):
                shapes = [['anchor', k, 'class', operand] for k in ('start', 'end', 'lstart', 'lend')]
                for k in ('fb', 'pb', 'eb'):
                    shapes.append(['look', k, 'class', operand, [['lit', 'y', True]]])
                shapes.append(['look', 'fb', 'class', ['empty', 0], [operand]])
                for shape in shapes:
                    for q in GRID_QUANTS:
                        if i % parts == part:
                            yield {'op': shape, 'q': list(q)}
                        i += 1


def shards(tier):
    quick = tier == 'quick'
    out = [{'mode': 'assertion_grid', 'part': k, 'parts': 2} for k in range(2)]
    parts = 4 if quick else 16
    for part in range(parts):
        out.append({'mode': 'enumerate', 'maxlen': 2 if quick else 3, 'part': part, 'parts': parts})
    for mode, n in (('literal', 2), ('assertion_free', 3), ('direct', 3), ('collision', 2)):
        for _ in range(n if quick else 12):
            out.append({'mode': mode, 'examples': 1200 if quick else 8000})
    return out


def run_shard(spec, ctx):
    if spec['mode'] == 'assertion_grid':
        run_enumeration(ctx, assertion_grid(spec['part'], spec['parts']), check_case,
                        'direct assertion shapes (anchors, lookarounds, lone lookarounds) x 108 texts next to the assertion syntax x 13 quantifiers (part)')
        return
    if spec['mode'] == 'enumerate':
        run_enumeration(ctx, enumerated(spec['maxlen'], spec['part'], spec['parts']), check_case,
                        f"all literals of length <= {spec['maxlen']} over {len(ALPHABET)} chars x {len(QUANTS)} quantifier spellings")
    else:
        run_hypothesis(ctx, strategy(spec, ctx), check_case, spec['examples'], label=spec['mode'])

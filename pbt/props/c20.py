"""C20 - Pregex objects are immutable values; results do not depend on history.

History-based check. A program keeps a bundle of live objects; every step combines *existing* members
(any operator, any spelling - so sub-objects are shared and the "returns itself" shortcuts create aliases),
or compiles / matches with a member, or applies class algebra to members. Invariants after every step:
 (1) every member's snapshot (str, get_pattern(), inferred type / repeatability when exposed, observations on
     probe texts) is unchanged;
 (2) the new result is equivalent to the same expression rebuilt from *fresh* leaves (same exception type
     when it raises).
Cross-process: every program is re-executed in fresh interpreters under other PYTHONHASHSEED values and the
semantic fingerprints (exception types, match observations, class membership) must be identical.
"""
import json
import os
import re
import subprocess
import sys

from hypothesis import strategies as st

from pbt import charsets as cs
from pbt import dsl, findings, pat, treecheck
from pbt import fresh as fresh_mod
from pbt.common import Violation, case_hash, run_hypothesis

ID = 'C20'
RULE = ('Hypothesis: programs of 3-14 steps over a bundle that starts with 2-4 leaves (literals, classes, tokens, empties, anchors): '
        'combine members i, j with any DSL operator in any spelling (results join the bundle), compile(), '
        'get_compiled_pattern(True|False), matching calls, class union/subtraction/negation of class members. After every step all '
        'snapshots are compared and the result is compared with a rebuild from fresh leaves; afterwards each program is replayed in '
        'fresh interpreters under 2 (quick) / 4 (thorough) other hash seeds per shard (16/64 shards, each with its own base seed) '
        'and fingerprints compared. A sixth of the programs rebuild their reference in freshly imported modules (no process history at all); the meta shards run sequences of prebuilt-pattern constructor calls (also with list arguments that are reused and mutated between calls) and compare every result with the same call in freshly imported modules. Non-trivial = some member is used as an operand >= 2 times and at least once after '
        'compile()/matching. Distinct = distinct serialised program.')
ASSUMPTIONS = ['semantic fingerprint = exception type, group structure and finditer observations on probe texts, plus membership of '
               '~220 probe characters for class results (sampled, not the whole range - C06/C07 scan the whole range)',
               '_get_type/_is_repeatable are read only when present (hasattr guard)']

PROBE_CHARS = [chr(c) for c in range(32, 127)] + list('\n\t\r\x0b\x0c\x00äßΩж한א€٣éÀ') + [chr(0x10FFFF), chr(0xD7FF)]


def snapshot(p, texts):
    snap = [str(p), p.get_pattern()]
    if hasattr(p, '_get_type'):
        snap.append(str(p._get_type()))
    if hasattr(p, '_is_repeatable'):
        snap.append(p._is_repeatable())
    if hasattr(p, '_get_verbose_pattern'):
        snap.append(p._get_verbose_pattern())
    try:
        rx = re.compile(str(p), dsl.FLAGS)
        snap.append([dsl.observe(rx, t) for t in texts])
    except (re.error, RecursionError, OverflowError):
        snap.append('uncompilable')
        return snap
    # behaviour through the public matching API (both code paths: with and without a retained compiled pattern)
    snap.append([pat.behaviour(p, t) for t in texts[:2]])
    return snap


def fingerprint(p, texts):
    """Semantic value of a result (independent of how the text is spelled)."""
    try:
        rx = re.compile(str(p), dsl.FLAGS)
    except (re.error, RecursionError, OverflowError) as e:
        return ['uncompilable']
    fp = [rx.groups, sorted(rx.groupindex.items()), [dsl.observe(rx, t) for t in texts]]
    if hasattr(p, '_get_verbose_pattern'):
        fp.append(''.join('1' if rx.fullmatch(c) else '0' for c in PROBE_CHARS))
    return fp


def subst(node, asts):
    """Replace ['ref', i] by the AST of member i (fresh-leaves version of the expression)."""
    if node[0] == 'ref':
        return asts[node[1]]
    n = list(node)
    k = n[0]
    if k in ('cat', 'alt'):
        n[2] = [subst(c, asts) for c in n[2]]
    elif k == 'enc':
        n[2] = subst(n[2], asts)
        n[3] = [subst(c, asts) for c in n[3]]
    elif k == 'q':
        n[3] = subst(n[3], asts)
    elif k in ('grp', 'cap'):
        n[2] = subst(n[2], asts)
    elif k == 'anchor':
        n[3] = subst(n[3], asts)
    elif k == 'look':
        n[3] = subst(n[3], asts)
        n[4] = [subst(c, asts) for c in n[4]]
    return n


def op_node(op, nmem):
    """Turn an op into a DSL node over ['ref', i] operands."""
    kind = op[0]
    r = lambda i: ['ref', i % nmem]  # noqa: E731
    if kind == 'cat':
        return ['cat', op[1], [r(op[2]), r(op[3])]]
    if kind == 'alt':
        return ['alt', op[1], [r(op[2]), r(op[3])]]
    if kind == 'enc':
        return ['enc', op[1], r(op[2]), [r(op[3])]]
    if kind == 'q':
        return ['q', op[1], op[2], r(op[3]), op[4], op[5], op[6]]
    if kind == 'grp':
        return ['grp', op[1], r(op[2]), op[3]]
    if kind == 'cap':
        return ['cap', op[1], r(op[2]), op[3]]
    if kind == 'anchor':
        return ['anchor', op[1], op[2], r(op[3])]
    if kind == 'look':
        return ['look', op[1], op[2], r(op[3]), [r(op[4])]]
    return None


def run_program(case, check, ctx=None):
    """Execute the program. With check=True raise Violation on a broken invariant. Returns the list of step fingerprints."""
    texts = case['texts']
    members, asts, snaps = [], [], []
    fps = []
    what = []
    uses = {}
    used_after_touch = False
    touched = set()
    for leaf in case['leaves']:
        try:
            p = dsl.build(leaf)
        except Exception as e:  # noqa: BLE001
            if type(e).__name__ == 'CaseTimeout':
                raise
            fps.append(['exc', type(e).__name__])
            continue
        members.append(p)
        asts.append(leaf)
        snaps.append(snapshot(p, dsl.bounded_texts(leaf, texts)))
        fps.append(fingerprint(p, dsl.bounded_texts(leaf, texts)))
    if not members:
        return fps, False
    for step, op in enumerate(case['ops']):
        n = len(members)
        kind = op[0]
        desc = None
        if kind in ('compile', 'gcp', 'match'):
            i = op[1] % n
            p = members[i]
            try:
                if kind == 'compile':
                    p.compile()
                elif kind == 'gcp':
                    p.get_compiled_pattern(discard_after=op[2])
                else:
                    t = texts[op[2] % len(texts)]
                    beh = pat.behaviour(p, t)
                    fps.append(['m', beh])
                    if check:
                        # the same value rebuilt from fresh leaves (never compiled, never used) answers every question alike
                        try:
                            fresh_beh = pat.behaviour(dsl.build(asts[i]), t)
                        except Exception as e:  # noqa: BLE001 - not rebuildable stand-alone: nothing to compare with
                            if type(e).__name__ == 'CaseTimeout':
                                raise
                            fresh_beh = None
                        if fresh_beh is not None and json.loads(json.dumps(beh, default=repr)) != json.loads(json.dumps(fresh_beh, default=repr)):
                            d = next(((a, b) for a, b in zip(beh, fresh_beh) if a != b), None)
                            v = Violation('history_dependent_behaviour', case, f'step {step}: member m{i} = {dsl.render(asts[i])} (pattern {str(p)!r}) answers '
                                          f'{str(d[0])[:120]} on {t!r}; the same expression rebuilt from fresh leaves answers {str(d[1])[:120]}')
                            fid = findings.classify(ID, v.kind, case)
                            if fid and ctx is not None:
                                ctx.known(fid)
                            else:
                                raise v
                touched.add(i)
            except re.error:
                pass        # uncompilable member (C03's business)
            desc = f'm{i}.{kind}'
        elif kind in ('clsor', 'clssub', 'clsinv'):
            i, j = op[1] % n, op[2] % n
            if asts[i][0] != 'cls' or (kind != 'clsinv' and asts[j][0] != 'cls'):
                continue
            try:
                if kind == 'clsor':
                    res, ast = members[i] | members[j], ['cls', ['or', asts[i][1], asts[j][1]]]
                elif kind == 'clssub':
                    res, ast = members[i] - members[j], ['cls', ['sub', asts[i][1], asts[j][1]]]
                else:
                    res, ast = ~members[i], ['cls', ['inv', asts[i][1]]]
                exc = None
            except treecheck.documented_exceptions() as e:
                res, exc = None, type(e).__name__
                ast = ['cls', [{'clsor': 'or', 'clssub': 'sub'}.get(kind, 'inv'), asts[i][1]] + ([asts[j][1]] if kind != 'clsinv' else [])]
            except Exception as e:  # noqa: BLE001 - undocumented: C03/C07 own it
                if type(e).__name__ == 'CaseTimeout':
                    raise
                fps.append(['exc', type(e).__name__])
                continue
            desc = f'{kind}(m{i}, m{j})'
            for x in (i, j):
                uses[x] = uses.get(x, 0) + 1
                used_after_touch = used_after_touch or x in touched
            fresh_check(res, exc, ast, dsl.bounded_texts(ast, texts), check, case, step, desc, fps)
            if res is not None:
                members.append(res)
                asts.append(ast)
                snaps.append(snapshot(res, dsl.bounded_texts(ast, texts)))
        else:
            node = op_node(op, n)
            if node is None:
                continue
            refs = [x[1] for x in dsl.walk(node) if x[0] == 'ref']
            if kind == 'q' and any(dsl.quantifier_depth(asts[x]) >= 2 for x in refs):
                continue          # a third quantifier level only makes re itself exponential (time, never a verdict)
            dsl.REFS[:] = members
            try:
                res = dsl.build(node)
                exc = None
            except treecheck.documented_exceptions() as e:
                res, exc = None, type(e).__name__
            except Exception as e:  # noqa: BLE001
                if type(e).__name__ == 'CaseTimeout':
                    raise
                fps.append(['exc', type(e).__name__])
                continue
            finally:
                dsl.REFS[:] = []
            for x in refs:
                uses[x] = uses.get(x, 0) + 1
                used_after_touch = used_after_touch or x in touched
            ast = subst(node, asts)
            desc = dsl.render(subst(node, [['lit', f'<m{k}>', False] for k in range(n)]))
            fresh_check(res, exc, ast, dsl.bounded_texts(ast, texts), check, case, step, desc, fps)
            if res is not None:
                members.append(res)
                asts.append(ast)
                snaps.append(snapshot(res, dsl.bounded_texts(ast, texts)))
        what.append(desc)
        # invariant (1): nobody changed
        if check:
            for k, (p, s0) in enumerate(zip(members, snaps)):
                s1 = snapshot(p, dsl.bounded_texts(asts[k], texts))
                if s1 != s0:
                    diff = [(a, b) for a, b in zip(s0, s1) if a != b][:1]
                    v = Violation('operand_mutated', case, f'after step {step} ({desc}) member m{k} = {dsl.render(asts[k])} changed: {diff}')
                    fid = findings.classify(ID, v.kind, case)
                    if fid and ctx is not None:
                        ctx.known(fid)
                    else:
                        raise v
    nontrivial = any(c >= 2 for c in uses.values()) and used_after_touch
    return fps, nontrivial


def fresh_check(res, exc, ast, texts, check, case, step, desc, fps):
    """Invariant (2): same value as the expression rebuilt from fresh leaves."""
    if res is None:
        fps.append(['exc', exc])
    else:
        fps.append(fingerprint(res, texts))
    if not check:
        return
    try:
        if case.get('deep'):
            # rebuild in freshly imported modules: no class-level state of this process can leak into the reference
            with fresh_mod.state():
                try:
                    fresh = dsl.build(ast)
                    fexc = None
                    fresh_fp = fingerprint(fresh, texts)
                except Exception as e:  # noqa: BLE001
                    if type(e).__name__ == 'CaseTimeout':
                        raise
                    if type(e).__module__ != 'pregex.core.exceptions':
                        return
                    fresh, fexc, fresh_fp = None, type(e).__name__, None
        else:
            fresh = dsl.build(ast)
            fexc = None
            fresh_fp = fingerprint(fresh, texts)
    except treecheck.documented_exceptions() as e:
        fresh, fexc, fresh_fp = None, type(e).__name__, None
    except Exception as e:  # noqa: BLE001
        if type(e).__name__ == 'CaseTimeout':
            raise
        return
    if exc != fexc:
        raise Violation('history_dependent_outcome', case, f'step {step} ({desc}): with shared operands -> {exc or str(res)!r}; rebuilt from fresh '
                        f'leaves {dsl.render(ast)} -> {fexc or str(fresh)!r}')
    if res is not None and fingerprint(res, texts) != fresh_fp:
        raise Violation('history_dependent_value', case, f'step {step} ({desc}): shared-operand result {str(res)!r} differs from fresh rebuild '
                        f'{str(fresh)!r} of {dsl.render(ast)}')


def replay_cross_process(case, ctx):
    """Replay of a hash-seed finding: run the program under both recorded seeds in fresh interpreters."""
    verif = os.path.dirname(os.path.dirname(os.path.dirname(os.path.abspath(__file__))))
    outs = []
    for hs in case['hash_seeds']:
        env = dict(os.environ, PYTHONHASHSEED=str(hs) if str(hs).isdigit() else '0')
        code = f'import sys; sys.path.insert(0, {verif!r}); from pbt.props import c20; c20.child_main()'
        proc = subprocess.run([sys.executable, '-W', 'ignore', '-c', code], input=json.dumps([case['program']]).encode(),
                              env=env, stdout=subprocess.PIPE, stderr=subprocess.PIPE, cwd=verif)
        outs.append(json.loads(proc.stdout.decode().strip().splitlines()[-1])[0])
    if outs[0] != outs[1]:
        diff = next(((a, b) for a, b in zip(outs[0], outs[1]) if a != b), None)
        raise Violation('hash_seed_dependent', case, f'different results under PYTHONHASHSEED={case["hash_seeds"]}: {str(diff)[:600]}')


# ---------------------------------------------------------------------------------------------------------
# meta mode: sequences of prebuilt-pattern constructor calls; every result must equal the same call evaluated in
# freshly imported modules (no history), including when list arguments are reused and mutated between calls
# ---------------------------------------------------------------------------------------------------------
def _decode_arg(v, slots, alias):
    if isinstance(v, list) and len(v) == 2 and v[0] == 'slot':
        lst = slots[v[1] % len(slots)]
        return lst if alias else list(lst)
    return v


META_PROBES = ['1/2/2021', '01/02/2021 1/2/21', '2021-03-04', '3-4-21x 12/11/10', '2021/1/2', '31/12/99 1999/12/31', '1-2-2021-3', 'abc ab xaby é.x.y a',
               '192.168.1.1 256.1.1.1 1.2.3.4.5', '::1 1::2:3 1:2:3:4:5:6:7:8 fe80::', '0 7 12 123 1000 -5 +17 3.14 -0.5 1e3 00', 'ff 1A 0x1f zz 101 222',
               'a@b.co x.y@mail.example.org', 'http://a.bc https://www.example.com/p?q=1', ' \t word  other\n', 'Ünï cödé ωορδ']


def meta_fingerprint(result):
    """Semantic value of one constructor call: what the pattern does on fixed probe texts (the emitted text itself may
    legitimately order class members differently under another hash seed)."""
    if result[0] != 'ok':
        return list(result)
    try:
        rx = re.compile(result[1], dsl.FLAGS)
    except (re.error, RecursionError, OverflowError):
        return ['uncompilable']
    return ['ok', rx.groups, [[m.span() for m in rx.finditer(t)][:12] for t in META_PROBES]]


def run_meta_forward(case, es):
    """The forward pass of a meta case (list arguments aliased and mutated as the program says) in module `es`."""
    slots = [list(x) for x in case['slots']]
    out = []
    for st_ in case['steps']:
        if st_[0] == 'mut':
            lst = slots[st_[1] % len(slots)]
            if st_[2] == 'append':
                lst.append(st_[3])
            elif st_[2] == 'pop' and len(lst) > 1:
                lst.pop()
            elif st_[2] == 'set0' and lst:
                lst[0] = st_[3]
            continue
        _, cls, args, kwargs = st_
        a = [_decode_arg(x, slots, True) for x in args]
        kw = {k: _decode_arg(x, slots, True) for k, x in kwargs.items()}
        try:
            out.append(('ok', str(getattr(es, cls)(*a, **kw))))
        except Exception as e:  # noqa: BLE001
            if type(e).__name__ == 'CaseTimeout':
                raise
            out.append(('exc', type(e).__name__))
    return out


def check_meta(case, ctx):
    """Forward pass in the long-lived modules (which have seen every earlier case of this worker), with list arguments
    aliased and mutated as the program says; reference pass in freshly imported modules - per call (thorough) or per
    case with the calls in REVERSE order (quick; a result that depends on the order of earlier calls differs) - with
    private copies of the list arguments as they were at the time of the call."""
    slots = [list(x) for x in case['slots']]
    es_hist = fresh_mod.essentials()
    calls = []         # (step, cls, concrete args, concrete kwargs, hist result)

    def run(es, cls, a, kw):
        try:
            return ('ok', str(getattr(es, cls)(*a, **kw)))
        except Exception as e:  # noqa: BLE001
            if type(e).__name__ == 'CaseTimeout':
                raise
            return ('exc', type(e).__name__)
    for step, st_ in enumerate(case['steps']):
        if st_[0] == 'mut':
            lst = slots[st_[1] % len(slots)]
            if st_[2] == 'append':
                lst.append(st_[3])
            elif st_[2] == 'pop' and len(lst) > 1:
                lst.pop()
            elif st_[2] == 'set0' and lst:
                lst[0] = st_[3]
            continue
        _, cls, args, kwargs = st_
        a_alias = [_decode_arg(x, slots, True) for x in args]
        kw_alias = {k: _decode_arg(x, slots, True) for k, x in kwargs.items()}
        a_copy = [_decode_arg(x, slots, False) for x in args]
        kw_copy = {k: _decode_arg(x, slots, False) for k, x in kwargs.items()}
        calls.append((step, cls, a_copy, kw_copy, run(es_hist, cls, a_alias, kw_alias)))
    per_call = case.get('fresh_per', 'call') == 'call'
    refs = {}
    if per_call:
        for (step, cls, a, kw, _) in calls:
            with fresh_mod.state():
                refs[step] = run(fresh_mod.essentials(), cls, a, kw)
    else:
        with fresh_mod.state():
            es = fresh_mod.essentials()
            for (step, cls, a, kw, _) in reversed(calls):
                refs[step] = run(es, cls, a, kw)
    for (step, cls, a, kw, hist) in calls:
        if hist != refs[step]:
            what = f"{cls}({', '.join([repr(x) for x in a] + [f'{k}={v!r}' for k, v in kw.items()])})"
            v = Violation('history_dependent_meta', case, f'step {step}: {what} gives {hist[1][:160]!r} in this process (after the earlier steps and '
                          f'cases, list arguments reused) but {refs[step][1][:160]!r} in freshly imported modules '
                          f'({"one import per call" if per_call else "calls in reverse order"})')
            if not findings.classify(ID, v.kind, case):
                raise v
    ctx.count('meta_calls', len(calls))
    if getattr(ctx, 'meta_cases', None) is not None and len(ctx.meta_cases) < ctx.max_meta_cases:
        ctx.meta_cases[case_hash(case)] = (case, [meta_fingerprint(h) for (_, _, _, _, h) in calls])
    ctx.case(case, len(calls) >= 2, sample={'steps': [x[:2] for x in case['steps']][:8]} if len(calls) >= 2 else None)


NUMS = [0, 1, 2, 3, 10, 11, 12, 13, 23, 32, 99, 100, 101, 123, 232, 255, 256, 999, 1000, 2147483647]
# argument tuples that collide under lossy keys (digits concatenated without separator, str() of different types ...):
# every value is written with the digits 1-3 only, so that (1, 232) / (12, 32) / (123, 2) read the same when glued together
SMALLS = [1, 2, 3, 11, 12, 13, 21, 22, 23, 31, 32, 33, 111, 112, 121, 122, 123, 131, 132, 211, 212, 213, 221, 231, 232, 312, 321]
BASES = [2, 3, 10, 11, 12, 13, 16, 16]


def meta_strategy(fresh_per='call'):
    from pbt.props.c19 import FORMATS
    b = st.booleans()
    num = st.one_of(st.sampled_from(NUMS), st.integers(0, 40))
    small = st.one_of(st.sampled_from(SMALLS), st.sampled_from(SMALLS), st.integers(0, 6))
    osmall = st.one_of(st.none(), small)

    def kw(**fields):
        # every keyword is optional: defaults must behave like the explicit default value
        return st.fixed_dictionaries({}, optional=fields)
    rng_args = st.tuples(num, num).map(lambda t: [min(t), max(t)])
    calls = st.one_of(
        st.tuples(st.just('Numeral'), st.just([]), kw(base=st.sampled_from(BASES), n_min=small, n_max=osmall, is_extensible=b)),
        st.tuples(st.just('Numeral'), st.tuples(st.sampled_from(BASES), small, osmall).map(lambda t: [t[0], min(t[1], t[2]) if t[2] is not None else t[1], max(t[1], t[2]) if t[2] is not None else None]), kw(is_extensible=b)),
        st.tuples(st.sampled_from(['Integer', 'PositiveInteger', 'NegativeInteger', 'UnsignedInteger']), st.one_of(st.just([]), rng_args), kw(is_extensible=b)),
        st.tuples(st.just('Integer'), rng_args, kw(include_sign=b, is_extensible=b)),
        st.tuples(st.sampled_from(['Decimal', 'PositiveDecimal', 'NegativeDecimal', 'UnsignedDecimal']), st.one_of(st.just([]), rng_args),
                  kw(min_decimal=st.integers(1, 12), max_decimal=st.one_of(st.none(), st.integers(12, 40)), is_extensible=b)),
        st.tuples(st.just('Word'), st.just([]), kw(min_chars=st.integers(1, 12), max_chars=st.one_of(st.none(), st.integers(12, 130)), is_global=b, is_extensible=b)),
        st.tuples(st.sampled_from(['WordContains', 'WordStartsWith', 'WordEndsWith']),
                  st.one_of(st.just([['slot', 1]]), st.sampled_from(['a', 'ab', 'é', 'x.y']).map(lambda x: [x])), kw(is_global=b, is_extensible=b)),
        st.tuples(st.just('Date'), st.one_of(st.just([]), st.just([['slot', 0]]), st.just([['slot', 0]]), st.sampled_from(FORMATS).map(lambda f: [f])), kw(is_extensible=b)),
        st.tuples(st.sampled_from(['IPv4', 'IPv6', 'IPv6']), st.just([]), kw(is_extensible=b)),
        st.tuples(st.sampled_from(['Text', 'Whitespace', 'NonWhitespace']), st.just([]), kw(is_optional=b)),
        st.tuples(st.just('Email'), st.just([]), kw(capture_local_part=b, capture_domain=b, is_extensible=b)),
        st.tuples(st.just('HttpUrl'), st.just([]), kw(capture_domain=b, is_extensible=b)),
    ).map(lambda t: ['call', t[0], t[1], t[2]])
    muts = st.one_of(
        st.tuples(st.just('mut'), st.just(0), st.sampled_from(['append', 'pop', 'set0']), st.one_of(st.sampled_from(FORMATS), st.sampled_from(['dd.mm.yyyy', 'yyyy/dd/mm']))).map(list),
        st.tuples(st.just('mut'), st.just(1), st.sampled_from(['append', 'pop', 'set0']), st.sampled_from(['a', 'b', 'ab', 'é', 'x', 'yz'])).map(list),
    )
    # the same list object handed to the same constructor twice, mutated in between (stale results keyed on the caller's object)
    date_alias = st.tuples(b, st.sampled_from(['append', 'pop', 'set0']), st.one_of(st.sampled_from(FORMATS), st.just('dd.mm.yyyy'))).map(
        lambda t: [['call', 'Date', [['slot', 0]], {'is_extensible': t[0]}], ['mut', 0, t[1], t[2]], ['call', 'Date', [['slot', 0]], {'is_extensible': t[0]}]])
    word_alias = st.tuples(st.sampled_from(['WordContains', 'WordStartsWith', 'WordEndsWith']), st.sampled_from(['append', 'pop', 'set0']),
                           st.sampled_from(['x', 'yz', 'é'])).map(
        lambda t: [['call', t[0], [['slot', 1]], {}], ['mut', 1, t[1], t[2]], ['call', t[0], [['slot', 1]], {}]])
    plain = st.lists(st.one_of(calls, calls, calls, muts), min_size=2, max_size=7)
    steps = st.one_of(plain, plain, st.tuples(plain, st.one_of(date_alias, word_alias)).map(lambda t: t[0][:2] + t[1] + t[0][2:]))
    return st.fixed_dictionaries({
        'mode': st.just('meta'),
        'fresh_per': st.just(fresh_per),
        # format lists: arbitrary ones, and lists over a few prefix-related formats (repeats likely; with is_extensible the order of the
        # alternatives is visible in what is matched)
        'slots': st.tuples(st.one_of(st.lists(st.sampled_from(FORMATS), min_size=1, max_size=3),
                                     st.lists(st.sampled_from(['d/m/yy', 'd/m/yyyy', 'dd/mm/yyyy', 'dd/mm/yy', 'd/mm/yyyy', 'yyyy/m/d', 'yy/m/d']), min_size=2, max_size=5)),
                           st.lists(st.sampled_from(['a', 'b', 'ab', 'c']), min_size=1, max_size=3)).map(list),
        'steps': steps,
    })


# ---------------------------------------------------------------------------------------------------------
# alike mode: class values that *print* the same but are different values (the global word class vs a union that merely
# prints as \w, a one-character class vs the token it prints as ...) combined with the same partners in one process
# ---------------------------------------------------------------------------------------------------------
ALIKE = [['word', True], ['or', ['word', True], ['named', 'AnyDigit']], ['or', ['word', True], ['c', '_']], ['word', False],
         ['or', ['word', False], ['named', 'AnyDigit']], ['butword', True], ['inv', ['or', ['word', True], ['named', 'AnyDigit']]],
         ['named', 'AnyDigit'], ['between', ['c', '0'], ['c', '9']], ['from', [['c', 'a']]], ['between', ['c', 'a'], ['c', 'b']]]
PARTNERS = [['from', [['c', '-']]], ['from', [['c', '\u00e9']]], ['named', 'AnyDigit'], ['between', ['c', 'a'], ['c', 'f']],
            ['from', [['c', '-'], ['c', '\u0431']]], ['butfrom', [['c', '-']]], ['c', '-'], ['c', '\u00e9']]


def check_alike(case, ctx):
    from pbt import charsets as cs

    def run(e):
        try:
            return ('ok', cs.scan(str(cs.build(e))))
        except cs.NotACharSet as ex:
            return ('bad', str(ex)[:80])
        except Exception as ex:  # noqa: BLE001
            if type(ex).__name__ == 'CaseTimeout':
                raise
            return ('exc', type(ex).__name__)
    n = 0
    for partner in case['partners']:
        for a in case['alike']:
            for e in (['or', a, partner], ['or', partner, a], ['sub', a, partner]):
                if e[1][0] == 'c' and e[2][0] == 'c':
                    continue
                hist = run(e)
                with fresh_mod.state():
                    ref = run(e)
                n += 1
                if hist != ref:
                    v = Violation('history_dependent_class', case, f'{cs.render(e)} matches {cs.show(hist[1]) if hist[0] == "ok" else hist} in this process '
                                  f'(after operands that print alike were combined with the same partner) but '
                                  f'{cs.show(ref[1]) if ref[0] == "ok" else ref} in freshly imported modules')
                    if not findings.classify(ID, v.kind, case):
                        raise v
    ctx.count('alike_expressions', n)
    ctx.case(case, n >= 2, sample={'alike': [cs.render(a) for a in case['alike'][:4]], 'partners': [cs.render(x) for x in case['partners'][:3]]})


def alike_cases(seed):
    import random
    rng = random.Random(seed)
    for _ in range(6):
        alike = ALIKE[:]
        rng.shuffle(alike)
        partners = PARTNERS[:]
        rng.shuffle(partners)
        yield {'mode': 'alike', 'alike': alike[:7], 'partners': partners[:4]}


def chain_cases():
    """Complete grid of two-step chains on one value: leaf -> unary operation -> (nothing | compile | get_compiled_pattern kept) ->
    unary operation, every result compared with a fresh rebuild through the whole matching API, on texts that differ from the
    pattern in case only. What one operation leaves on its result (a retained compiled pattern, flags, names) must not leak into
    the next operation's result."""
    unary = [['grp', 'class', -1, False], ['grp', 'method', -1, False], ['grp', 'class', -1, True], ['grp', 'method', -1, True],
             ['cap', 'class', -1, None], ['cap', 'method', -1, 'n'], ['cap', 'method', -1, 'g2'],
             ['q', 'opt', 'method', -1, 0, None, True], ['q', 'exactly', 'class', -1, 1, None, True], ['q', 'exactly', 'method', -1, 2, None, True],
             ['q', 'plus', 'class', -1, 0, None, False], ['anchor', 'lstart', 'method', -1], ['anchor', 'end', 'class', -1],
             ['cat', 'method', -1, 0], ['alt', 'method', -1, 0], ['enc', 'method', -1, 0]]
    states = [None, ['compile', -1], ['gcp', -1, False], ['gcp', -1, True]]
    leaves = [['lit', 'abc', True], ['cls', ['named', 'AnyLowercaseLetter']], ['alt', 'class', [['lit', 'ab', True], ['lit', 'c', False]]],
              ['lit', 'a.b', True]]
    texts = ['abc', 'ABC', 'aBc ab C', 'xabcabc\nAB', 'a.b A.B', '']
    for leaf in leaves:
        for u1 in unary:
            for st_ in states:
                for u2 in unary:
                    ops = [u1] + ([st_] if st_ else []) + [u2, ['match', -1, 0], ['match', -1, 1]]
                    yield {'leaves': [['lit', 'x', True], leaf], 'ops': ops, 'texts': texts, 'deep': False}
                    # the second operation on the *same operand* again (member 1 = the leaf), not on the first result
                    u2s = [1 if k == 2 and u2[0] in ('grp', 'cap', 'cat', 'alt', 'enc') else (1 if k == 3 and u2[0] in ('q', 'anchor') else v) for k, v in enumerate(u2)]
                    st2 = ([st_[0], 1] + st_[2:]) if st_ else None
                    ops = [u1] + ([st2] if st2 else []) + [u2s, ['match', -1, 0], ['match', -1, 1], ['match', 1, 0]]
                    yield {'leaves': [['lit', 'x', True], leaf], 'ops': ops, 'texts': texts, 'deep': False}


def check_case(case, ctx):
    if case.get('mode') == 'meta':
        return check_meta(case, ctx)
    if case.get('mode') == 'alike':
        return check_alike(case, ctx)
    if 'program' in case:
        replay_cross_process(case, ctx)
        check_case(case['program'], ctx)
        return
    fps, nontrivial = run_program(case, True, ctx)
    ctx.count('program_with_reuse_after_compile' if nontrivial else 'program_other')
    ctx.case(case, nontrivial, sample={'leaves': [dsl.render(x) for x in case['leaves']], 'ops': [o[0] for o in case['ops']]} if nontrivial else None)
    if getattr(ctx, 'programs', None) is not None and len(ctx.programs) < ctx.max_programs:
        ctx.programs[case_hash(case)] = (case, fps)


def child_main():
    """Re-execute programs (JSON list on stdin) in this interpreter; print their fingerprints."""
    from pbt.common import import_pregex
    import_pregex()
    cases = json.loads(sys.stdin.read())
    out = []
    for case in cases:
        try:
            if case.get('mode') == 'meta':
                out.append(json.loads(json.dumps([meta_fingerprint(r) for r in run_meta_forward(case, fresh_mod.essentials())])))
                continue
            fps, _ = run_program(case, False)
            out.append(json.loads(json.dumps(fps, default=repr)))
        except Exception as e:  # noqa: BLE001
            out.append(['child_error', type(e).__name__, str(e)[:200]])
    print(json.dumps(out))


def leaf_strategy():
    feats = [f for f in dsl.ALL_FEATURES if f not in ('strarg',)]
    small = dsl.tree_strategy(['cls', 'tok', 'empty', 'wb', 'meta', 'uni', 'ws', 'frag', 'anchor', 'q', 'alt'], max_leaves=2)
    clsleaf = st.one_of(dsl.simple_class_strategy(feats))
    # classes that print alike but are different values: the global word class vs. a union that merely prints as \w, and their partners
    wordish = st.sampled_from([['cls', ['word', True]], ['cls', ['word', False]], ['cls', ['butword', True]],
                               ['cls', ['or', ['word', True], ['named', 'AnyDigit']]], ['cls', ['or', ['word', True], ['c', '_']]],
                               ['cls', ['from', [['c', '-']]]], ['cls', ['from', [['c', 'é']]]], ['cls', ['named', 'AnyDigit']]])
    # classes over a tiny alphabet (range-free, overlapping more often than not): what one operation leaves behind in a shared
    # operand shows in the next operation on it
    tiny = st.tuples(st.lists(st.sampled_from(list('abc-')), min_size=1, max_size=3, unique=True), st.booleans()).map(
        lambda t: ['cls', ['butfrom' if t[1] else 'from', [['c', x] for x in t[0]]]])
    return st.one_of(small, small, clsleaf, wordish, tiny)


def op_strategy():
    idx = st.one_of(st.integers(0, 30), st.integers(0, 30), st.just(-1), st.just(-1), st.just(-2))       # -1: the latest result, so that chains of operations on one value form
    sp2 = st.sampled_from(['class', 'method'])
    return st.one_of(
        st.tuples(st.just('cat'), st.sampled_from(['class', 'method', 'method_left', 'op']), idx, idx).map(list),
        st.tuples(st.just('alt'), st.sampled_from(['class', 'method', 'method_left']), idx, idx).map(list),
        st.tuples(st.just('enc'), sp2, idx, idx).map(list),
        st.tuples(st.just('q'), st.sampled_from(['opt', 'star', 'plus', 'exactly', 'atleast', 'atmost', 'range']),
                  st.sampled_from(['class', 'method']), idx, st.integers(0, 3), st.one_of(st.none(), st.integers(3, 4)), st.booleans()).map(list),
        st.tuples(st.just('q'), st.just('exactly'), st.sampled_from(['mul', 'rmul']), idx, st.integers(0, 3), st.none(), st.just(True)).map(list),
        # bounds that are invalid but compare/hash equal to valid ones (True == 1, 2.0 == 2): the outcome must not depend on
        # whether the same object was quantified with the valid value before
        st.tuples(st.just('q'), st.sampled_from(['exactly', 'atleast', 'atmost', 'range']), st.sampled_from(['class', 'method']), idx,
                  st.sampled_from([True, False, 1.0, 2.0, 0, 1, 2]), st.sampled_from([None, True, 2.0, 1, 2, 3.0]), st.booleans()).map(list),
        st.tuples(st.just('grp'), sp2, idx, st.booleans()).map(list),
        st.tuples(st.just('cap'), sp2, idx, st.one_of(st.none(), st.sampled_from(['n', 'g2']))).map(list),
        st.tuples(st.just('anchor'), st.sampled_from(['start', 'end', 'lstart', 'lend']), sp2, idx).map(list),
        st.tuples(st.just('look'), st.sampled_from(['fb', 'pb', 'eb', 'nfb', 'npb', 'neb']), sp2, idx, idx).map(list),
        st.tuples(st.just('compile'), idx).map(list),
        st.tuples(st.just('compile'), idx).map(list),
        st.tuples(st.just('gcp'), idx, st.booleans()).map(list),
        st.tuples(st.just('match'), idx, st.integers(0, 7)).map(list),
        st.tuples(st.sampled_from(['clsor', 'clssub', 'clsinv']), idx, idx).map(list),
        st.tuples(st.sampled_from(['clsor', 'clssub']), idx, idx).map(list),
    )


def strategy():
    return st.fixed_dictionaries({
        'leaves': st.lists(leaf_strategy(), min_size=2, max_size=4),
        'ops': st.one_of(st.lists(op_strategy(), min_size=3, max_size=14), st.lists(op_strategy(), min_size=3, max_size=14),
                         st.lists(op_strategy(), min_size=15, max_size=40)),
        'texts': st.lists(st.text(st.sampled_from(list('ab1 \n-.xAZ_9é(')), max_size=8), min_size=3, max_size=6).map(lambda xs: xs + ['', 'a', 'é', 'Б1_', '-']),
        'deep': st.sampled_from([False, False, False, True]),
    })


def shards(tier):
    n = 8 if tier == 'quick' else 48
    out = [{'examples': 400 if tier == 'quick' else 2000, 'replay_seeds': 2 if tier == 'quick' else 4} for _ in range(n)]
    out += [{'mode': 'alike'}] + [{'mode': 'chains', 'part': k, 'parts': 3} for k in range(3)]
    out += [{'mode': 'meta', 'fresh_per': 'case' if tier == 'quick' else ('call' if i % 2 else 'case'),
             'examples': 700 if tier == 'quick' else 1500} for i in range(4 if tier == 'quick' else 12)]
    return out


SHARD_TIMEOUT = {'quick': 300, 'thorough': 5400}      # the thorough tier took 34 minutes wall in all on an otherwise idle machine


def run_shard(spec, ctx):
    if spec.get('mode') == 'chains':
        from pbt.common import run_enumeration
        ctx.programs = None
        run_enumeration(ctx, (c for k, c in enumerate(chain_cases()) if k % spec.get('parts', 1) == spec.get('part', 0)), check_case, 'two unary operations in a row - on the first result, or twice on the same operand - x compile states (4 leaves x 16 x 4 x 16 x 2)')
        return
    if spec.get('mode') == 'alike':
        from pbt.common import run_enumeration
        run_enumeration(ctx, alike_cases(ctx.seed * 31 + ctx.shard_index), check_case, 'classes that print alike x partners x orders (6 shuffles)', secs=120)
        return
    if spec.get('mode') == 'meta':
        ctx.meta_cases = {}
        ctx.max_meta_cases = 500 if spec['examples'] <= 700 else 2000
        run_hypothesis(ctx, meta_strategy(spec.get('fresh_per', 'call')), check_case, spec['examples'], label='meta')
        progs = list(ctx.meta_cases.values())
        ctx.meta_cases = None
        spec = dict(spec, replay_seeds=2 if ctx.tier == 'quick' else 4)
    else:
        ctx.programs = {}
        ctx.max_programs = 400 if spec['examples'] <= 300 else 1500
        run_hypothesis(ctx, strategy(), check_case, spec['examples'])
        progs = list(ctx.programs.values())
        ctx.programs = None
    if not progs:
        return
    verif = os.path.dirname(os.path.dirname(os.path.dirname(os.path.abspath(__file__))))
    own = ctx.hash_seed
    for k in range(spec['replay_seeds']):
        hs = (int(own) * 7 + 13 + k * 101 + ctx.shard_index) % 4294967296 if str(own).isdigit() else k + 2
        if str(hs) == str(own):
            hs += 1
        env = dict(os.environ, PYTHONHASHSEED=str(hs))
        code = f'import sys; sys.path.insert(0, {verif!r}); from pbt.props import c20; c20.child_main()'
        proc = subprocess.run([sys.executable, '-W', 'ignore', '-c', code], input=json.dumps([c for c, _ in progs]).encode(),
                              env=env, stdout=subprocess.PIPE, stderr=subprocess.PIPE, cwd=verif)
        if proc.returncode != 0:
            ctx.inconclusive.append(f'cross-process replay under hash seed {hs} failed: {proc.stderr.decode()[-300:]}')
            continue
        theirs = json.loads(proc.stdout.decode().strip().splitlines()[-1])
        ctx.count('cross_process_replays', len(progs))
        for (case, mine), other in zip(progs, theirs):
            mine = json.loads(json.dumps(mine, default=repr))
            if mine != other:
                diff = next(((a, b) for a, b in zip(mine, other) if a != b), (len(mine), len(other)))
                v = Violation('hash_seed_dependent', {'program': case, 'hash_seeds': [str(own), str(hs)]},
                              f'program gives different results under PYTHONHASHSEED={own} and {hs}: {str(diff)[:600]}')
                if findings.classify(ID, v.kind, case):
                    ctx.known('hash_seed_dependent')
                    continue
                ctx.record_violation(v, shrunk=False)
                return

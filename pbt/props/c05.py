"""C05 - the empty pattern is neutral in every construction.

Metamorphic oracle: take a tree T (no empties) and a set of insertion points; T+ is T with an empty
pattern (any spelling, possibly itself a quantifier/Group/Capture/Concat/Either/positive lookaround of
empties) inserted as an extra concat operand, an enclosing pattern, a *later* alternative, or the
assertion of a positive lookaround. Then build(T+) must be semantically equivalent to build(T), every
inserted empty must itself print as '', and a negative lookaround on it must raise
EmptyNegativeAssertionException.
"""
import re

from hypothesis import strategies as st

from pbt import dsl, findings, treecheck
from pbt.common import Violation, run_hypothesis

ID = 'C05'
RULE = ('Hypothesis: a DSL tree T (<= 5 leaves, no empties) plus 1-3 insertions (node index, kind, spelling, empty-tree). '
        'Empty-trees are any of 18 direct spellings or quantifier (all kinds, lazy/greedy) / Group (flagged or not) / Capture '
        '(named or not) / Concat / Either / positive lookaround applied to empties, nested up to depth 3. Insertion kinds: concat '
        'operand left/right (class, method, on_right=False, + operator), extra operand of an existing n-ary Concat/Either, Enclose, '
        'later alternative, empty assertion of a positive lookaround (also appended to an existing lookaround). '
        'Non-trivial = >= 1 insertion below the root and T has a match on some text. Distinct = distinct serialised case.')
ASSUMPTIONS = ['an empty *receiver* of either() / empty first alternative is unspecified (docs vs pinned test) and never generated',
               'semantic equivalence of build(T+) and build(T) is judged by re on the texts targeted at T']


def empty_tree(depth=3):
    base = st.integers(0, len(dsl.EMPTY_SPELLINGS) - 1).map(lambda i: ['empty', i])
    lit0 = st.just(['lit', '', True])

    def extend(child):
        sp = st.sampled_from(['class', 'method'])
        return st.one_of(
            st.tuples(st.sampled_from(['opt', 'star', 'plus', 'exactly', 'atleast', 'atmost', 'range']), sp, child,
                      st.integers(0, 3), st.one_of(st.none(), st.integers(3, 4)), st.booleans()).map(
                lambda t: ['q', t[0], t[1], t[2], t[3], t[4], t[5]]),
            st.tuples(st.sampled_from(['mul', 'rmul']), child, st.integers(0, 3)).map(
                lambda t: ['q', 'exactly', t[0], t[1], t[2], None, True]),
            st.tuples(sp, child, st.booleans()).map(lambda t: ['grp', t[0], t[1], t[2]]),
            st.tuples(sp, child, st.one_of(st.none(), st.sampled_from(['e1', 'e2']))).map(lambda t: ['cap', t[0], t[1], t[2]]),
            st.tuples(st.sampled_from(['class', 'method', 'method_left', 'op']), st.lists(child, min_size=0, max_size=3)).map(
                lambda t: ['cat', t[0], t[1]]),
            st.tuples(st.sampled_from(['class', 'method']), st.lists(child, min_size=0, max_size=3)).map(
                lambda t: ['alt', t[0], t[1]]),
            st.tuples(st.sampled_from(['fb', 'pb', 'eb']), sp, child, st.lists(child, min_size=1, max_size=2)).map(
                lambda t: ['look', t[0], t[1], t[2], t[3]]),
            st.tuples(sp, child, st.lists(child, min_size=1, max_size=2)).map(lambda t: ['enc', t[0], t[1], t[2]]),
        )
    return st.recursive(st.one_of(base, base, lit0), extend, max_leaves=depth)


INS_KINDS = ['cat_r', 'cat_l', 'nary', 'enc', 'alt_later', 'look_pos', 'wide_alt', 'wide_cat']
WIDE = [5, 9, 17, 33, 63, 64, 65, 66, 100, 128, 129, 130]


def apply_insertions(tree, ins, with_empties=True):
    """Return T+ and the number of insertions below the root. Targets are paths into the ORIGINAL tree T, applied from
    the last (deepest / right-most) to the first, so that they stay valid. with_empties=False gives the baseline T0:
    the same tree with the wide n-ary wrappers but without any inserted empty (for the other kinds: T itself)."""
    ps = dsl.paths(tree)
    chosen = sorted(((ps[idx % len(ps)][0], (kind, sp, e, aux)) for (idx, kind, sp, e, aux) in ins),
                    key=lambda t: [p for p, _ in ps].index(t[0]), reverse=True)
    below = sum(1 for p, _ in chosen if p)
    for path, (kind, sp, e, aux) in chosen:
        def fn(x, kind=kind, sp=sp, e=e, aux=aux):
            if with_empties:
                return wrap(x, kind, sp, e, aux)
            if kind in ('wide_alt', 'wide_cat'):
                w = wrap(x, kind, sp, e, aux)
                return [w[0], w[1], [o for o in w[2] if o is not e]]
            return x
        tree = dsl.replace_at(tree, path, fn)
    return tree, below


def wide(x, kind, sp, e, aux):
    """x becomes one operand of an n-ary Either/Concat with 5-130 operands; the empty pattern sits at a drawn index > 0
    (block boundaries such as 63/64/65/128 included)."""
    k = WIDE[aux % len(WIDE)]
    words = [['lit', f'w{i}', bool(i % 2)] for i in range(k - 1)]
    ops = [x] + words
    positions = sorted({1, k // 2, k - 1, 63, 64, 65, 127, 128, 129} & set(range(1, k + 1)))
    pos = positions[(aux // len(WIDE)) % len(positions)]
    ops = ops[:pos] + [e] + ops[pos:]
    return ['alt' if kind == 'wide_alt' else 'cat', 'class' if sp in ('class', 'op', 'method_left') else 'method', ops]


def wrap(x, kind, sp, e, aux):
    if kind in ('wide_alt', 'wide_cat'):
        return wide(x, kind, sp, e, aux)
    if kind == 'nary' and x[0] in ('cat', 'alt') and x[1] in ('class', 'method') and x[2]:
        pos = 1 + aux % len(x[2])     # never in front of the first alternative / receiver
        if x[0] == 'cat':
            pos = aux % (len(x[2]) + 1)
            if x[1] == 'method' and pos == 0:
                pos = 1
        return [x[0], x[1], x[2][:pos] + [e] + x[2][pos:]]
    if kind == 'look_pos' and x[0] == 'look' and x[1] in ('fb', 'pb', 'eb'):
        pos = aux % (len(x[4]) + 1)
        return ['look', x[1], x[2], x[3], x[4][:pos] + [e] + x[4][pos:]]
    if kind in ('cat_r', 'nary'):
        return ['cat', sp, [x, e]]
    if kind == 'cat_l':
        if sp == 'method':
            sp = 'method_left'       # x.concat(e, on_right=False): x is the receiver, e an argument
            return ['cat', sp, [e, x]]
        return ['cat', sp if sp != 'method_left' else 'class', [e, x]]
    if kind == 'enc':
        return ['enc', 'class' if sp in ('class', 'op') else 'method', x, [e]]
    if kind == 'alt_later':
        return ['alt', 'class' if sp in ('class', 'op') else 'method', [x, e]]
    if kind == 'look_pos':
        return ['look', ['fb', 'pb', 'eb'][aux % 3], 'class' if sp in ('class', 'op') else 'method', x, [e]]
    raise ValueError(kind)


def replace_node(tree, target, new):
    if tree is target:
        return new
    n = list(tree)
    k = n[0]
    if k in ('cat', 'alt'):
        n[2] = [replace_node(c, target, new) for c in n[2]]
    elif k == 'enc':
        n[2] = replace_node(n[2], target, new)
        n[3] = [replace_node(c, target, new) for c in n[3]]
    elif k == 'q':
        n[3] = replace_node(n[3], target, new)
    elif k in ('grp', 'cap'):
        n[2] = replace_node(n[2], target, new)
    elif k == 'anchor':
        n[3] = replace_node(n[3], target, new)
    elif k == 'look':
        n[3] = replace_node(n[3], target, new)
        n[4] = [replace_node(c, target, new) for c in n[4]]
    return n


def violation(kind, case, detail, ctx):
    fid = findings.classify(ID, kind, case)
    if fid:
        ctx.known(fid)
        return
    raise Violation(kind, case, detail)


def check_case(case, ctx):
    tree = case['tree']
    if case.get('ref'):          # T ends in a backreference (numeric or named) followed by a digit-leading / arbitrary tail
        tree = dsl.with_reference(tree, case['ref']) or dsl.with_reference(['cap', 'class', tree, None], case['ref']) or tree
    ins = [tuple(i) for i in case['ins']]
    if tree is not case['tree']:
        ctx.count('T_with_backreference')
        # one more empty, as a further operand of the top-level n-ary concatenation that holds the reference (any position)
        ins.insert(0, (0, 'nary', 'class', case['ref_empty'], case['ref_pos']))     # first: applied before other root insertions wrap the node
    # (1) each inserted empty prints as ''
    for (_, _, _, e, _) in ins:
        try:
            pe = dsl.build(e)
        except Exception as ex:  # noqa: BLE001
            if type(ex).__name__ == 'CaseTimeout':
                raise
            violation('empty_construction_raises', case, f'{dsl.render(e)} raised {type(ex).__name__}: {ex}', ctx)
            ctx.case(case, False)
            return
        if str(pe) != '':
            violation('empty_not_returned_unchanged', case, f'{dsl.render(e)} printed {str(pe)!r}, documented: the empty pattern', ctx)
            ctx.case(case, False)
            return
    # (2) a negative lookaround on an empty assertion raises EmptyNegativeAssertionException
    e0 = ins[0][3]
    kindn = ['nfb', 'npb', 'neb'][ins[0][4] % 3]
    base_tree, _ = apply_insertions(tree, ins, with_empties=False)
    try:
        dsl.build(tree)
        base = dsl.build(base_tree)
    except Exception:  # noqa: BLE001 - T itself is not buildable: other properties own that
        ctx.count('skipped:T_not_buildable')
        ctx.case(case, False)
        return
    neg = ['look', kindn, 'class' if ins[0][2] in ('class', 'op') else 'method', tree, [e0]]
    try:
        r = dsl.build(neg)
        violation('missing_EmptyNegativeAssertionException', case, f'{dsl.render(neg)} returned {str(r)!r}', ctx)
    except Exception as ex:  # noqa: BLE001
        if type(ex).__name__ == 'CaseTimeout':
            raise
        if type(ex).__name__ != 'EmptyNegativeAssertionException':
            violation('wrong_exception_for_empty_negative_assertion', case, f'{dsl.render(neg)} raised {type(ex).__name__}: {ex}', ctx)
    # (2b) documented "returned unchanged" laws, as emitted text: a positive lookaround on an empty assertion returns
    # the match pattern unchanged, an empty later alternative is dropped - also n-ary, on every sub-tree X
    nodes = list(dsl.walk(tree))
    for (idx, kind, sp, e, aux) in ins:
        if kind not in ('look_pos', 'alt_later', 'nary'):
            continue
        x = nodes[idx % len(nodes)]
        w = wrap(x, kind, sp, e, aux)
        if w[0] == 'cat':
            continue
        try:
            sx, sw = str(dsl.build(x)), str(dsl.build(w))
        except Exception:  # noqa: BLE001 - X alone not buildable (e.g. it is only legal inside its parent): skip
            continue
        if sx != sw:
            violation('empty_operand_not_dropped', case, f'{dsl.render(w)} printed {sw!r} but {dsl.render(x)} prints {sx!r}: the empty '
                      f'{"assertion" if w[0] == "look" else "alternative"} must leave the pattern unchanged', ctx)
    # (3) T+ is equivalent to T
    plus, below = apply_insertions(tree, ins)
    try:
        ra = re.compile(str(base), dsl.FLAGS)
    except Exception:  # noqa: BLE001
        ctx.count('skipped:T_not_compilable')
        ctx.case(case, False)
        return
    try:
        pp = dsl.build(plus)
    except Exception as ex:  # noqa: BLE001
        if type(ex).__name__ == 'CaseTimeout':
            raise
        violation('insertion_changes_outcome', case, f'T = {dsl.render(base_tree)} builds {str(base)!r} but T+ = {dsl.render(plus)} '
                  f'raised {type(ex).__name__}: {ex}', ctx)
        ctx.case(case, False)
        return
    try:
        rb = re.compile(str(pp), dsl.FLAGS)
    except re.error as ex:
        violation('insertion_breaks_pattern', case, f'T+ = {dsl.render(plus)} printed {str(pp)!r}: re.error {ex}; T printed {str(base)!r}', ctx)
        ctx.case(case, False)
        return
    txts = dsl.bounded_texts(plus, dsl.texts(tree, case.get('tseed', 0)) + ['w3', 'w64 w65', 'w0w1w2'])
    d = dsl.equivalent(rb, ra, txts)
    if d:
        violation('insertion_changes_matches', case, f'T+ = {dsl.render(plus)} printed {str(pp)!r}, T = {dsl.render(tree)} printed '
                  f'{str(base)!r}: {d}', ctx)
    matched = any(ra.search(t) and ra.search(t).group(0) != '' for t in txts)
    for (_, kind, _, _, _) in ins:
        ctx.count(f'insertion:{kind}')
    if below:
        ctx.count('insertion_below_root')
    nontrivial = below >= 1 and matched
    ctx.case(case, nontrivial, sample={'T': dsl.render(tree), 'T+': dsl.render(plus), 'emitted T+': str(pp)} if nontrivial else None)


def strategy(spec, ctx):
    feats = [f for f in dsl.swarm_features(ctx.seed, ctx.shard_index) if f != 'empty']
    ins = st.tuples(st.integers(0, 40), st.sampled_from(INS_KINDS), st.sampled_from(['class', 'method', 'op', 'method_left']),
                    empty_tree(), st.one_of(st.integers(0, 7), st.integers(0, 215))).map(list)
    return st.fixed_dictionaries({
        'tree': dsl.tree_strategy(feats, max_leaves=5),
        'ins': st.lists(ins, min_size=1, max_size=3),
        'tseed': st.integers(0, 2 ** 16),
        'ref': st.one_of(st.none(), st.none(), dsl.refspec_strategy(feats)),
        'ref_empty': empty_tree(), 'ref_pos': st.integers(0, 7),
    })


def shards(tier):
    n = 16 if tier == 'quick' else 64
    return [{'examples': 1200 if tier == 'quick' else 8000} for _ in range(n)]


def run_shard(spec, ctx):
    run_hypothesis(ctx, strategy(spec, ctx), check_case, spec['examples'])

"""C14 - file sources and context windows refer to the text, not the path.

Oracle: for every public method with an `is_path` parameter, method(path, is_path=True) equals
method(text) where text is what a text-mode UTF-8 read of the file yields; context windows equal
text[max(s-l,0):min(e+r,len)] for the spans re.finditer finds with str(p); bad window sizes raise the
documented exceptions.
"""
import inspect
import os
import re
import shutil
import tempfile
import types

from hypothesis import strategies as st

from pbt import dsl, findings
from pbt.common import HarnessError, Violation, case_hash, run_hypothesis

ID = 'C14'
RULE = ('Hypothesis: DSL pattern tree x generated multi-line file content (pattern witnesses embedded in lines, '
        'non-ASCII, \\n / \\r\\n / \\r line ends) written as UTF-8 to a fresh temp file (path spelled plainly, with ./ and //, through a symlink and .., or relative) x instance state (plain / compile() / get_compiled_pattern kept or discarded) x every public method that '
        'has an is_path parameter (found by introspection) x window sizes 0..len+3 and invalid sizes. '
        'Non-trivial = the pattern has >= 1 match in the content and the content has >= 2 lines or a non-ASCII '
        'character. Distinct = distinct (tree, content, window) serialisations.')
ASSUMPTIONS = ['re.finditer on str(p) with MULTILINE|DOTALL gives the true match spans (C11 checks the matching methods)',
               'a file is read in text mode with universal newlines, as the library does; the raw decoding is accepted too']


def path_methods():
    from pregex.core.pre import Pregex
    out = []
    for name, fn in inspect.getmembers(Pregex, predicate=inspect.isfunction):
        if name.startswith('_'):
            continue
        if 'is_path' in inspect.signature(fn).parameters:
            out.append(name)
    if len(out) < 10:
        raise HarnessError(f'introspection found only {out} methods with is_path')
    return sorted(out)


def call(p, name, source, is_path, case):
    kw = {}
    params = inspect.signature(getattr(p, name)).parameters
    if 'include_empty' in params:
        kw['include_empty'] = case['include_empty']
    if 'relative_to_match' in params:
        kw['relative_to_match'] = case['relative']
    if 'n_left' in params:
        kw['n_left'], kw['n_right'] = case['nl'], case['nr']
    if 'repl' in params:
        kw['repl'] = case['repl']
        kw['count'] = case['count']
    r = getattr(p, name)(source, is_path=is_path, **kw)
    if isinstance(r, types.GeneratorType):
        r = list(r)
    return r


def boundary_content(kmax, pad):
    """An ASCII file (bytes == characters) in which a CR sits at every offset 2^k - 1 and its LF at 2^k, k = 6..kmax,
    i.e. a CRLF pair straddles every power-of-two boundary a buffered reader might use; ordinary lines in between."""
    size = 2 ** kmax + 4096
    buf = bytearray(b'a' * size)
    for i in range(37, size, 53):
        buf[i] = 0x20 if i % 3 else 0x0a
    for i in range(pad, size - 1, 97):
        buf[i:i + 2] = b'\r\n'
    for k in range(6, kmax + 1):
        buf[2 ** k - 1:2 ** k + 1] = b'\r\n'
        buf[2 ** k - 2] = 0x61
        buf[2 ** k + 1] = 0x62
    return buf.decode('ascii')


def make_content(case):
    if case.get('boundary'):
        return boundary_content(case['boundary'], case.get('pad', 11))
    ws = dsl.texts(case['tree'], case['tseed'], limit=10, maxlen=12)
    pieces = []
    seps = case['seps']
    for i, w in enumerate(ws[:case['nlines']]):
        pieces.append(w)
        pieces.append(seps[i % len(seps)])
    body = ''.join(pieces)
    rep = case.get('repeat', 1)
    if rep > 1 and dsl.unbounded_depth(case['tree']) == 0 and dsl.size(case['tree']) <= 6:          # files larger than the usual I/O buffers (8 KiB, 64 KiB) and with thousands of lines
        body = (body + '\n') * rep
    return case['head'] + body + case['tail']


BAD_SIZES = {'float': 1.5, 'str': '2', 'none': None, 'bool': True, 'neg': -1, 'neg_big': -100}


def check_case(case, ctx):
    try:
        p = dsl.build(case['tree'])
        pattern = str(p)
        rx = re.compile(pattern, dsl.FLAGS)
    except Exception:
        ctx.count('skipped:pattern_not_buildable')
        ctx.case(case, False)
        return
    # the instance may be in "compiled" state: both matching paths must honour is_path
    state = case.get('state', 'plain')
    if state == 'compile':
        p.compile()
    elif state == 'gcp_keep':
        p.get_compiled_pattern(discard_after=False)
    elif state == 'gcp_discard':
        p.get_compiled_pattern(discard_after=True)
    ctx.count(f'state:{state}')
    content = make_content(case)
    # deterministic path (a pure function of the case and the shard): a defect that matches against the *path string*
    # must give the same answer every time the case is re-executed
    d = os.path.join(tempfile.gettempdir(), f'verif_c14_{case_hash(case)}_{ctx.hash_seed}_{ctx.shard_index}_{os.getpid()}')   # constant within the worker process
    shutil.rmtree(d, ignore_errors=True)
    os.makedirs(d)
    try:
        # the file lives in d/real/sub; d/link is a symlink to d/real/sub/deeper, and d/src.txt is a decoy with other content, so a
        # path spelled through the symlink and '..' names the real file for the OS but the decoy after a lexical "normalisation"
        real = os.path.join(d, 'real', 'sub')
        os.makedirs(os.path.join(real, 'deeper'))
        os.symlink(os.path.join(real, 'deeper'), os.path.join(d, 'link'))
        with open(os.path.join(d, 'src.txt'), 'w', encoding='utf-8') as f:
            f.write('DECOY 1 a\n' * 3)
        spelling = case.get('spelling', 'plain')
        path = {'plain': os.path.join(real, 'src.txt'),
                'dot': os.path.join(d, 'real', '.', 'sub') + os.sep + os.sep + 'src.txt',
                'dotdot_symlink': os.path.join(d, 'link', '..', 'src.txt'),
                'relative': os.path.relpath(os.path.join(real, 'src.txt'))}[spelling]
        ctx.count(f'path_spelling:{spelling}')
        with open(path, 'wb') as f:
            f.write(content.encode('utf-8'))
        with open(path, 'r', encoding='utf-8') as f:
            text = f.read()
        raw = content
        spans = [m.span() for m in rx.finditer(text)]
        # (1) every method: path == text
        for name in path_methods():
            via_path = call(p, name, path, True, case)
            via_text = call(p, name, text, False, case)
            if via_path != via_text and via_path != call(p, name, raw, False, case):
                kind = f'path_differs:{name}'
                c = dict(case, method=name)
                fid = findings.classify(ID, kind, c)
                if fid:
                    ctx.known(fid)
                    continue
                raise Violation(kind, c, f'{dsl.render(case["tree"])} ({pattern!r}).{name}(path, is_path=True) = '
                                f'{via_path!r} but on the file\'s text {text!r} = {via_text!r}')
        # (1b) with is_path=False the source is text, whether or not a file of that name happens to exist
        as_text_while_file_exists = {name: call(p, name, path, False, case) for name in path_methods()}
        os.remove(path)
        for name, r1 in as_text_while_file_exists.items():
            r2 = call(p, name, path, False, case)
            if r1 != r2:
                raise Violation(f'text_treated_as_path:{name}', dict(case, method=name), f'{pattern!r}.{name}({path!r}, is_path=False) = {r1!r} while a file of '
                                f'that name exists, {r2!r} after it was removed: the text was read as a path')
        with open(path, 'wb') as f:
            f.write(content.encode('utf-8'))
        # (2) windows
        nl, nr = case['nl'], case['nr']
        want = [text[max(s - nl, 0):min(e + nr, len(text))] for s, e in spans]
        for name in ('get_matches_with_context', 'iterate_matches_with_context'):
            got = list(getattr(p, name)(text, nl, nr))
            if got != want:
                raise Violation(f'window:{name}', case, f'{pattern!r}.{name}({text!r}, {nl}, {nr}) = {got!r}, expected {want!r}')
        # (3) invalid sizes
        bad = BAD_SIZES[case['bad']]
        expect = 'InvalidArgumentValueException' if case['bad'].startswith('neg') else 'InvalidArgumentTypeException'
        for name in ('get_matches_with_context', 'iterate_matches_with_context'):
            for args in ((bad, 1), (1, bad)):
                try:
                    list(getattr(p, name)(text, *args))
                    got_exc = None
                except Exception as e:  # noqa: BLE001
                    got_exc = type(e).__name__
                if got_exc != expect:
                    raise Violation(f'bad_size:{name}', case, f'{name}(text, {args[0]!r}, {args[1]!r}) raised {got_exc}, documented: {expect}')
    finally:
        shutil.rmtree(d, ignore_errors=True)
    nontrivial = bool(spans) and (text.count('\n') >= 1 or any(ord(c) > 127 for c in text))
    ctx.count('has_match' if spans else 'no_match')
    if '\r' in raw:
        ctx.count('content_with_CR')
    if any(ord(c) > 127 for c in text):
        ctx.count('content_non_ascii')
    if nl == 0 or nr == 0:
        ctx.count('window_zero')
    if nl > len(text) or nr > len(text):
        ctx.count('window_larger_than_text')
    ctx.case(case, nontrivial, sample={'expr': dsl.render(case['tree']), 'content': text, 'n_left': nl, 'n_right': nr,
                                       'matches': len(spans)} if nontrivial else None,
             key=[case['tree'], content, nl, nr])


def strategy(spec, ctx):
    feats = [f for f in dsl.ALL_FEATURES if f not in ('empty',)]
    return st.fixed_dictionaries({
        'tree': dsl.tree_strategy(feats, max_leaves=4),
        'tseed': st.integers(0, 2 ** 16),
        'nlines': st.integers(0, 6),
        'seps': st.lists(st.sampled_from(['\n', '\n', ' ', '\r\n', '\r', '\n\n', ' é ', '']), min_size=1, max_size=3),
        'head': st.one_of(st.text(st.characters(exclude_categories=['Cs']), max_size=4), st.sampled_from(['\ufeff', '\ufeffa', '\ufffe', '\x00', '\r', '\n', '\x1a', '#!'])),
        'tail': st.text(st.characters(exclude_categories=['Cs']), max_size=4),
        'nl': st.one_of(st.integers(0, 6), st.integers(0, 80), st.sampled_from([255, 256, 257, 300, 1000, 10 ** 6])),
        'nr': st.one_of(st.integers(0, 6), st.integers(0, 80), st.sampled_from([255, 256, 257, 300, 1000, 10 ** 6])),
        'include_empty': st.booleans(),
        'relative': st.booleans(),
        'repl': st.sampled_from(['', '-', '<>', 'é', '$1', '{0}', '&']),
        'count': st.integers(0, 3),
        'bad': st.sampled_from(sorted(BAD_SIZES)),
        'state': st.sampled_from(['plain', 'plain', 'compile', 'gcp_keep', 'gcp_discard']),
        'repeat': st.sampled_from([1, 1, 1, 1, 1, 1, 1, 1, 1, 40, 700, 3000]),
        'spelling': st.sampled_from(['plain', 'plain', 'dot', 'dotdot_symlink', 'relative']),
    })


def boundary_cases(tier):
    base = {'tseed': 1, 'nlines': 0, 'seps': ['\n'], 'head': '', 'tail': '', 'nl': 3, 'nr': 2, 'include_empty': True, 'relative': False,
            'repl': '-', 'count': 2, 'bad': 'neg'}
    trees = [['lit', 'ab', False], ['cls', ['named', 'AnyWhitespace']], ['anchor', 'lend', 'class', ['lit', 'a', True]],
             ['cap', 'class', ['tok', 'Newline'], None]]
    for kmax in ((14, 21) if tier == 'quick' else (10, 14, 17, 20, 21, 22)):
        for i, tree in enumerate(trees if tier != 'quick' else trees[:2]):
            yield dict(base, tree=tree, boundary=kmax, pad=11 + i, state=['plain', 'compile'][i % 2])


def shards(tier):
    n = 15 if tier == 'quick' else 47
    return [{'examples': 400 if tier == 'quick' else 3000} for _ in range(n)] + [{'mode': 'boundary'}]


SHARD_TIMEOUT = {'quick': 300, 'thorough': 3000}


def run_shard(spec, ctx):
    if spec.get('mode') == 'boundary':
        from pbt.common import guarded
        n = 0
        for case in boundary_cases(ctx.tier):
            n += 1
            guarded(ctx, case, lambda case=case: check_case(case, ctx), secs=240)
        ctx.exhaustive['files with a CRLF pair straddling every power-of-two offset up to 2^21 (2^22 thorough) x 2-4 patterns'] = n
        return
    run_hypothesis(ctx, strategy(spec, ctx), check_case, spec['examples'])

"""C10 - lookbehind assertions are accepted iff their pattern has one fixed width.

Oracle: structural width (lo, hi) of the assertion tree; NonFixedWidthPatternException iff lo != hi for
some assertion (an empty assertion follows C05 first); accepted => the result compiles (and is
equivalent to the reference). Backreferences/conditionals inside the assertion are unspecified.
"""
import re

from hypothesis import strategies as st

from pbt import dsl, findings, treecheck
from pbt.common import HarnessError, Violation, run_hypothesis

ID = 'C10'
RULE = ('Hypothesis: (match tree) x 1-2 assertion trees x the four lookbehind constructors in class and method form. '
        'Assertion trees are built from literals that contain ? * + { } characters, classes containing them, exact and '
        'variable quantifiers, equal- and unequal-width alternations, groups/captures, nested zero-width assertions; '
        'the structural width is cross-checked against re\'s own getwidth() on the reference. '
        'Non-trivial = the assertion contains a quantifier character, a class, an alternation or a quantifier node. '
        'Distinct = distinct serialised case.')
ASSUMPTIONS = ['structural width calculus (literals len, classes 1, quantifier multiplies, alternation min/max, assertions 0) '
               '- cross-checked on every case against re._parser getwidth() of the reference',
               'assertion patterns that repeat an anchored sub-pattern etc. follow the other properties first (unspecified here)']
OWNED = ('missing_exception:NonFixedWidthPatternException', 'undocumented_use:NonFixedWidthPatternException',
         'not_compilable')

QCHARS = list('?*+{},')


def assertion_leaf():
    lits = st.one_of(
        st.lists(st.one_of(st.sampled_from(QCHARS), st.sampled_from(list('ab1(\\')), st.sampled_from(QCHARS)),
                 min_size=1, max_size=4).map(''.join),
        st.sampled_from(['a?', 'a*', 'a+', 'a{2}', 'a{1,2}', '{,3}', '{2,}', '\\?', '(?', '(*', '\\(?', 'x', 'ab', '??', '+?']),
    )
    lit = st.tuples(lits, st.booleans()).map(lambda t: ['lit', t[0], t[1]])
    cls_chars = st.lists(st.sampled_from(list('?*+{}ab-')), min_size=1, max_size=3, unique=True)
    esc_chars = st.lists(st.sampled_from(list('\\^[]-/')), min_size=2, max_size=4, unique=True)
    cls = st.one_of(
        esc_chars.map(lambda xs: ['cls', ['from', [['c', x] for x in xs]]]),
        esc_chars.map(lambda xs: ['cls', ['butfrom', [['c', x] for x in xs]]]),
        st.just(['cls', ['named', 'AnyDigit']]), st.just(['cls', ['between', ['c', '0'], ['c', '3']]]),
        cls_chars.map(lambda xs: ['cls', ['from', [['c', x] for x in xs]]]),
        cls_chars.map(lambda xs: ['cls', ['butfrom', [['c', x] for x in xs]]]),
        st.sampled_from([['cls', ['between', ['c', '*'], ['c', '?']]], ['cls', ['named', 'AnyPunctuation']],
                         ['cls', ['named', 'AnyLetter']], ['cls', ['named', 'Any']], ['cls', ['word', True]]]),
    )
    tok = st.sampled_from([['tok', 'Newline'], ['tok', 'Backslash'], ['tok', 'Dollar'], ['wb'], ['nwb']])
    return st.one_of(lit, lit, cls, cls, tok)


def assertion_tree():
    feats = ['cat', 'alt', 'q', 'grp', 'cap', 'look', 'enc']
    flat = st.lists(st.one_of(assertion_leaf(), assertion_leaf(), dsl.tree_strategy(['q'], max_leaves=1, leaf=assertion_leaf())),
                    min_size=3, max_size=6).map(lambda xs: ['cat', 'class', xs])      # flat sequences: class, quantified thing, class ...
    return st.one_of(dsl.tree_strategy(feats, max_leaves=4, leaf=assertion_leaf()), dsl.tree_strategy(feats, max_leaves=4, leaf=assertion_leaf()), flat)


def check_case(case, ctx):
    if case.get('mode') == 'ref':
        return check_ref(case, ctx)
    tree = ['look', case['kind'], case['sp'], case['match'], case['assertions']]
    o = treecheck.evaluate(tree, case.get('tseed', 0))
    ctx.count(f'outcome:{o.kind}')
    if o.kind in OWNED:
        kind = o.kind.split(':')[0]
        fid = findings.classify(ID, kind, case)
        if fid:
            ctx.known(fid)
        else:
            raise Violation(kind, case, f'{dsl.render(tree)}: {o.detail}')
    # cross-check the width calculus against re's own on the reference of each assertion
    nontrivial = False
    for a in case['assertions']:
        try:
            m = dsl.model(a)
        except (dsl.Unspec, dsl.Expect):
            continue
        except Exception:
            ctx.count('assertion_leaf_failed')
            continue
        if m.empty or m.wunspec:
            continue
        try:
            import re._parser as sre_parse
            w = sre_parse.parse(m.ref, dsl.FLAGS).getwidth()
            lo, hi = int(w[0]), int(w[1])
            hi = None if hi >= 2 ** 31 - 1 or hi >= 4294967295 else hi
            if (lo, hi) != (m.lo, m.hi) and not (m.hi is None and hi is not None and hi > 10 ** 6):
                raise HarnessError(f'width calculus ({m.lo},{m.hi}) disagrees with re ({lo},{hi}) on {m.ref!r}')
        except re.error:
            pass
        ctx.count('assertion_fixed' if m.lo == m.hi else 'assertion_variable')
        ks = dsl.kinds(a)
        if any(k.split(':')[0] in ('q', 'alt', 'cls') for k in ks) or any(c in s for s in dsl.literals(a) for c in '?*+{'):
            nontrivial = True
    nontrivial = nontrivial and o.kind in ('ok', 'expected_exception')
    ctx.case(case, nontrivial, sample={'expr': dsl.render(tree), 'outcome': o.kind + (':' + o.detail if o.kind == 'expected_exception' else ''),
                                       'emitted': o.pattern} if nontrivial else None)


# -- references inside lookbehinds ------------------------------------------------------------------------------------------------
# A backreference is neither optional, nor variably repeated, nor an alternation: by the property's own definition it has a single
# width (that of its group), so an assertion made of literals and references is accepted, and the whole expression - with the
# group defined to the left - compiles and behaves like the hand-written regex; an optional / variably repeated reference is refused.
REF_SHAPES = {
    'ref': (lambda r: r, lambda R: R, True),
    'lit_ref': (lambda r: ['cat', 'class', [['lit', 'x', True], r]], lambda R: 'x' + R, True),
    'ref_lit': (lambda r: ['cat', 'op', [r, ['lit', 'x', True]]], lambda R: R + 'x', True),
    'twice': (lambda r: ['q', 'exactly', 'class', r, 2, None, True], lambda R: f'(?:{R}){{2}}', True),
    'group': (lambda r: ['grp', 'class', r, False], lambda R: f'(?:{R})', True),
    'optional': (lambda r: ['q', 'opt', 'class', r, 0, None, True], None, False),
    'star': (lambda r: ['q', 'star', 'method', r, 0, None, True], None, False),
    'range': (lambda r: ['q', 'range', 'class', r, 1, 2, True], None, False),
}


def ref_cases():
    for name in (None, 'quote'):
        for shape in sorted(REF_SHAPES):
            for kind in ('pb', 'npb', 'eb', 'neb'):
                for sp in ('class', 'method'):
                    yield {'mode': 'ref', 'name': name, 'shape': shape, 'kind': kind, 'sp': sp}


def check_ref(case, ctx):
    name, kind = case['name'], case['kind']
    mk, ref_of, fixed = REF_SHAPES[case['shape']]
    assertion = mk(['bref', name if name else 1])
    tree = ['cat', 'class', [['cap', 'class', ['lit', 'ab', True], name], ['look', kind, case['sp'], ['lit', 'z', True], [assertion]]]]
    what = dsl.render(tree)
    try:
        p = dsl.build(tree)
        raised = None
    except Exception as ex:  # noqa: BLE001
        if type(ex).__name__ == 'CaseTimeout':
            raise
        raised = type(ex).__name__
    if not fixed:
        if raised != 'NonFixedWidthPatternException':
            raise Violation('missing_exception', case, f'{what}: an optional / variably repeated reference in a lookbehind; got {raised or repr(str(p))}')
        ctx.case(case, True, sample={'expr': what, 'outcome': raised})
        return
    if raised:
        raise Violation('undocumented_use', case, f'{what} raised {raised}: the assertion is a reference (+ literals), which has a single width')
    R = f'(?P={name})' if name else '\\1'
    A = ref_of(R)
    cap = f'(?P<{name}>ab)' if name else '(ab)'
    want = cap + {'pb': f'(?<={A})z', 'npb': f'(?<!{A})z', 'eb': f'(?<={A})z(?={A})', 'neb': f'(?<!{A})z(?!{A})'}[kind]
    try:
        ra, rb = re.compile(str(p), dsl.FLAGS), re.compile(want, dsl.FLAGS)
    except re.error as ex:
        raise Violation('not_compilable', case, f'{what} emitted {str(p)!r}: {ex} (hand-written: {want!r})')
    d = dsl.equivalent(ra, rb, ['ababz', 'abz', 'abxabz', 'ababzab', 'abz ab', 'abxz', 'ababababz', 'abzabab', ''])
    if d:
        raise Violation('diff:match', case, f'{what} emitted {str(p)!r}, hand-written {want!r}: {d}')
    ctx.case(case, True, sample={'expr': what, 'emitted': str(p)})


def strategy(spec, ctx):
    match = dsl.tree_strategy([f for f in dsl.ALL_FEATURES if f not in ('anchor',)], max_leaves=2)
    return st.fixed_dictionaries({
        'kind': st.sampled_from(['pb', 'eb', 'npb', 'neb']),
        'sp': st.sampled_from(['class', 'method']),
        'match': match,
        'assertions': st.lists(assertion_tree(), min_size=1, max_size=2),
        'tseed': st.integers(0, 999),
    })


def shards(tier):
    n = 16 if tier == 'quick' else 64
    return [{'examples': 1000 if tier == 'quick' else 8000, 'refs': i == 0} for i in range(n)]


def run_shard(spec, ctx):
    if spec.get('refs'):
        from pbt.common import run_enumeration
        run_enumeration(ctx, ref_cases(), check_case, 'numeric / named backreference in 8 assertion shapes x 4 lookbehind kinds x 2 spellings')
    run_hypothesis(ctx, strategy(spec, ctx), check_case, spec['examples'])

"""C19 - Date patterns match exactly the selected numeric formats.

Oracle: a direct parser of the format strings: parts in the format's order joined by the format's
separator, d = 1-9, dd = 01-31, m = 1-9, mm = 01-12, yy = two digits, yyyy = four digits. Exact-match
verdict of Date(fmt) on a candidate equals the parser's verdict; Date(list) is the union; formats=None
selects all 48; a str selects one; anything that is not one of the 48 strings raises
InvalidArgumentValueException.
"""
import itertools
import re

from hypothesis import strategies as st

from pbt import dsl, findings
from pbt.common import Violation, guarded, run_enumeration, run_hypothesis

ID = 'C19'
RULE = ('complete enumeration per format (48) x both is_extensible settings of candidate strings f1 s1 f2 s2 f3: quick = the pairwise '
        'slice (two fields range over all of 0..9, 00..99 and 3-digit strings while the third is a fixed valid value; years of length '
        '1-5; all four separator combinations incl. mixed); thorough = the full product. Plus Hypothesis: subsets of formats with the '
        'union model, formats=None / str / list, and invalid format arguments (wrong case, wrong order, unknown strings, non-str, '
        'non-list). Non-trivial = a candidate that is valid for some but not all formats, or an invalid-argument case. '
        'Distinct = distinct (format set, is_extensible, candidate).')
ASSUMPTIONS = ['candidates use ASCII digits only', 'the empty list of formats is unspecified',
               'bulk verdicts are taken with re.fullmatch on str(Date(...)) under M|S (C11 ties the matching methods to re); '
               'a sample also goes through is_exact_match']

SEPS = ('-', '/')


def all_formats():
    out = []
    for d in ('dd', 'd'):
        for m in ('mm', 'm'):
            for y in ('yyyy', 'yy'):
                for sep in SEPS:
                    out += [sep.join(x) for x in ((d, m, y), (m, d, y), (y, m, d))]
    return out


FORMATS = all_formats()
assert len(set(FORMATS)) == 48


def field_ok(kind, s):
    if not s.isascii() or not s.isdigit():
        return False
    if kind == 'd' or kind == 'm':
        return len(s) == 1 and s != '0'
    if kind == 'dd':
        return len(s) == 2 and 1 <= int(s) <= 31
    if kind == 'mm':
        return len(s) == 2 and 1 <= int(s) <= 12
    if kind == 'yy':
        return len(s) == 2
    if kind == 'yyyy':
        return len(s) == 4
    raise ValueError(kind)


def parse_ok(fmt, fields, seps):
    sep = '-' if '-' in fmt else '/'
    kinds = fmt.split(sep)
    return seps == (sep, sep) and all(field_ok(k, f) for k, f in zip(kinds, fields))


DM = [str(i) for i in range(10)] + [f'{i:02d}' for i in range(100)] + ['000', '001', '010', '100', '123', '031', '310', '012']
YEARS = ['0', '7', '00', '07', '99', '000', '123', '0000', '1999', '2024', '9999', '00000', '12345']
VALID = {'d': '7', 'dd': '31', 'm': '9', 'mm': '12', 'yy': '07', 'yyyy': '2024'}


def candidates(fmt, full):
    sep = '-' if '-' in fmt else '/'
    kinds = fmt.split(sep)
    pools = [YEARS if k.startswith('y') else DM for k in kinds]
    seps_all = [(a, b) for a in SEPS for b in SEPS]
    if full:
        for fs in itertools.product(*pools):
            for sp in seps_all:
                yield fs, sp
        return
    fixed = [VALID[k] for k in kinds]
    seen = set()
    for i, j in ((0, 1), (0, 2), (1, 2)):
        for a in pools[i]:
            for b in pools[j]:
                fs = list(fixed)
                fs[i], fs[j] = a, b
                fs = tuple(fs)
                if fs in seen:
                    continue
                seen.add(fs)
                for sp in (seps_all if (len(seen) % 7 == 0) else [(sep, sep)]):
                    yield fs, sp
    for fs in itertools.product(*[[VALID[k], p[3], p[-1]] for k, p in zip(kinds, pools)]):
        for sp in seps_all:
            yield fs, sp


def violation(kind, case, detail, ctx):
    fid = findings.classify(ID, kind, case)
    if fid:
        ctx.known(fid)
        return
    raise Violation(kind, case, detail)


def date_cls():
    import pregex.meta.essentials as es
    return es.Date


def check_case(case, ctx):
    """case: {'formats': arg encoding, 'ext': bool, 'texts': [...]}  (single candidates, used for replay and generated subsets)"""
    Date = date_cls()
    arg = case['formats']
    ext = case['ext']
    what = f'Date({arg!r}, is_extensible={ext})'
    valid_arg = arg is None or (isinstance(arg, str) and arg in FORMATS) or (
        isinstance(arg, list) and len(arg) > 0 and all(isinstance(f, str) and f in FORMATS for f in arg))
    unspec = isinstance(arg, list) and len(arg) == 0
    try:
        p = Date(arg, is_extensible=ext) if arg is not None or case.get('explicit_none') else Date(is_extensible=ext)
        raised = None
    except Exception as ex:  # noqa: BLE001
        if type(ex).__name__ == 'CaseTimeout':
            raise
        raised = type(ex).__name__
    if unspec:
        ctx.case(case, False)
        return
    if not valid_arg:
        if raised != 'InvalidArgumentValueException':
            violation('invalid_format_argument', case, f'{what}: documented InvalidArgumentValueException, got '
                      f'{raised or "a pattern"}', ctx)
        ctx.count('invalid_argument_case')
        ctx.case(case, True, sample={'call': what, 'outcome': raised})
        return
    if raised:
        violation('valid_formats_rejected', case, f'{what} raised {raised}', ctx)
        ctx.case(case, False)
        return
    fmts = FORMATS if arg is None else ([arg] if isinstance(arg, str) else arg)
    rx = re.compile(str(p), dsl.FLAGS)
    nt = False
    for t in case['texts']:
        parts = re.split(r'([-/])', t)
        want = False
        if len(parts) == 5:
            fs, sp = (parts[0], parts[2], parts[4]), (parts[1], parts[3])
            verdicts = [parse_ok(f, fs, sp) for f in fmts]
            want = any(verdicts)
            if any(parse_ok(f, fs, sp) for f in FORMATS) and not all(verdicts):
                nt = True
        got = rx.fullmatch(t) is not None
        got2 = p.is_exact_match(t)
        if got != want or got2 != want:
            violation('verdict', case, f'{what}.is_exact_match({t!r}) = {got2} (re on str(p): {got}); parser says {want}', ctx)
            break
    ctx.case(case, nt, sample={'call': what, 'texts': case['texts'][:4]} if nt else None)


def enumerate_format(fmt, ext, full, ctx):
    Date = date_cls()
    p = Date(fmt, is_extensible=ext)
    rx = re.compile(str(p), dsl.FLAGS)
    sep = '-' if '-' in fmt else '/'
    kinds = fmt.split(sep)
    n = 0
    for fs, sp in candidates(fmt, full):
        t = fs[0] + sp[0] + fs[1] + sp[1] + fs[2]
        want = sp == (sep, sep) and all(field_ok(k, f) for k, f in zip(kinds, fs))
        got = rx.fullmatch(t) is not None
        n += 1
        if got != want or (n % 97 == 0 and p.is_exact_match(t) != want):
            case = {'formats': fmt, 'ext': ext, 'texts': [t]}
            fid = findings.classify(ID, 'verdict', case)
            if fid:
                ctx.known(fid)
                continue
            raise Violation('verdict', case, f'Date({fmt!r}, is_extensible={ext}) on {t!r}: matched={got}, parser says {want}')
        # non-trivial: valid under some other format (or this one) but the verdict needed the right table entry
        nontrivial = want or any(field_ok(k, f) for k, f in zip(kinds, fs))
        if n % 50 == 0 or want:
            ctx.case([fmt, ext, t], nontrivial, sample={'format': fmt, 'is_extensible': ext, 'candidate': t, 'valid': want} if want else None)
        else:
            ctx.evaluations += 1
    return n


def _add_targeted(case):
    """One valid candidate for every format named in the argument (so that a format that was silently dropped shows)."""
    arg = case['formats']
    fmts = [arg] if isinstance(arg, str) else (arg if isinstance(arg, list) else [])
    extra = []
    for f in fmts:
        if isinstance(f, str) and f in FORMATS:
            sep = '-' if '-' in f else '/'
            extra.append(sep.join(VALID[k] for k in f.split(sep)))
    case['texts'] = list(case['texts']) + extra
    return case


def gen_strategy():
    fm = st.sampled_from(FORMATS)
    bad = st.sampled_from(['DD/MM/YYYY', 'dd-mm', 'yyyy.mm.dd', 'dd-mm/yyyy', '', 'd/d/yy', 'mm/yyyy/dd', 'dd/mm/yyy', ' dd/mm/yyyy'])
    nonstr = st.sampled_from([5, 1.5, True, ('dd/mm/yyyy',)])
    dup = st.tuples(st.lists(fm, min_size=1, max_size=3), st.integers(0, 2), st.lists(st.one_of(fm, fm, bad), min_size=1, max_size=3)).map(
        lambda t: t[0] + [t[0][t[1] % len(t[0])]] + t[2])          # a repeated entry followed by further entries
    import random
    subset = st.tuples(st.integers(0, 2 ** 32), st.integers(1, 10)).map(lambda t: random.Random(t[0]).sample(FORMATS, t[1]))
    arg = st.one_of(st.none(), fm, st.lists(fm, min_size=1, max_size=6), subset, subset, dup, dup,
                    bad, nonstr.filter(lambda x: not isinstance(x, tuple)), st.lists(st.one_of(fm, bad), min_size=1, max_size=3),
                    st.lists(st.one_of(fm, st.sampled_from([5, None])), min_size=1, max_size=3), st.just([]))
    field = st.one_of(st.sampled_from(DM), st.sampled_from(YEARS))
    text = st.tuples(field, st.sampled_from(SEPS), field, st.sampled_from(SEPS), field).map(''.join)
    junk = st.sampled_from(['', '1/1', '1/1/1/1', 'a/b/cc', '01-01-2020 ', '٠١/٠١/٢٠٢٠x'])
    return st.fixed_dictionaries({'formats': arg, 'ext': st.booleans(), 'texts': st.lists(st.one_of(text, text, text, junk), min_size=4, max_size=12)}).map(_add_targeted)


def format_string_cases():
    """Every three-part string over the six part names with any separators: valid iff it is one of the 48."""
    parts = ('d', 'dd', 'm', 'mm', 'yy', 'yyyy')
    for a in parts:
        for b in parts:
            for c in parts:
                for s1 in SEPS:
                    for s2 in SEPS:
                        f = a + s1 + b + s2 + c
                        yield {'formats': f, 'ext': False, 'texts': ['1-1-01', '01/01/2001', '2001-01-01', '2001/31/12', '01-31-2001']}
                        yield {'formats': [FORMATS[0], f], 'ext': True, 'texts': ['31-12-2024', '2024/31/12']}


def shards(tier):
    quick = tier == 'quick'
    out = [{'mode': 'format_strings'}]
    for i in range(16 if quick else 48):
        fmts = [f for k, f in enumerate(FORMATS) if k % (16 if quick else 48) == i]
        out.append({'mode': 'enumerate', 'formats': fmts, 'full': not quick})
    for _ in range(4 if quick else 16):
        out.append({'mode': 'gen', 'examples': 300 if quick else 2000})
    for k in range(2):
        out.append({'mode': 'pairs', 'part': k, 'parts': 2})
    return out


def pair_cases(part, parts):
    """Every ordered pair of documented formats as a two-element list, both is_extensible settings, with one valid candidate per
    format (plus near misses): 'one of the selected formats' must not depend on which other format is selected, or on their order."""
    i = 0
    for a in FORMATS:
        for b in FORMATS:
            if a == b:
                continue
            for ext in (False, True):
                if i % parts == part:
                    yield _add_targeted({'formats': [a, b], 'ext': ext, 'texts': ['1/1/1', '31-12-99x']})
                i += 1


SHARD_TIMEOUT = {'quick': 240, 'thorough': 3000}


def run_shard(spec, ctx):
    if spec['mode'] == 'format_strings':
        run_enumeration(ctx, format_string_cases(), check_case, 'all 864 three-part format strings over {d,dd,m,mm,yy,yyyy} x separators, alone and in a list')
        return
    if spec['mode'] == 'pairs':
        run_enumeration(ctx, pair_cases(spec['part'], spec['parts']), check_case, 'all ordered pairs of the 48 formats as a list x is_extensible (part)')
        return
    if spec['mode'] == 'enumerate':
        total = 0
        for fmt in spec['formats']:
            for ext in (False, True):
                def one(fmt=fmt, ext=ext):
                    nonlocal total
                    total += enumerate_format(fmt, ext, spec['full'], ctx)
                guarded(ctx, {'formats': fmt, 'ext': ext, 'texts': ['31-12-2024']}, one, secs=1200)
        ctx.exhaustive[('full product' if spec['full'] else 'pairwise slice') + ' of field candidates per format x is_extensible'] = total
    else:
        run_hypothesis(ctx, gen_strategy(), check_case, spec['examples'])

"""C11 - matching methods return exactly what re finds, compiled or not.

History-based (stateful) check: one pattern instance, a generated sequence of compile() /
get_compiled_pattern(True|False) / Pregex.purge() / matching calls on generated (multi-line) texts.
Oracle after every matching call: equality with re.search / fullmatch / finditer on str(p) under
MULTILINE|DOTALL; source[start:end] == match; iterate_* == get_*; the object returned by
get_compiled_pattern has M|S set and gives the same observations; the cache state follows the documented
model (compile / discard_after) when the private cache attribute exists.
"""
import re

from hypothesis import strategies as st

from pbt import dsl, findings, pat
from pbt.common import Violation, run_hypothesis

ID = 'C11'
RULE = ('Hypothesis: one pattern per case (DSL tree <= 5 leaves, all features: empty-width, alternations with overlapping candidates, '
        'Any, line anchors, lookarounds) and an operation sequence of 4-30 steps over {compile, get_compiled_pattern(True|False), '
        'purge, has_match, is_exact_match, get_/iterate_matches, get_/iterate_matches_and_pos} on multi-line texts derived from the '
        'pattern (one of them optionally tens of kilobytes long); every returned list is scribbled on after use. Non-trivial = the sequence has >= 1 matching call before and >= 1 after a compile, >= 1 get_compiled_pattern(True), '
        'and some text has >= 2 matches. Distinct = distinct serialised (tree, sequence).')
ASSUMPTIONS = ['re.compile(str(p), MULTILINE|DOTALL) is the reference', 'the private cache attribute is inspected only if it exists (hasattr guard)']

MATCH_OPS = ['has', 'exact', 'gm', 'im', 'gmp', 'imp']


def violation(kind, case, detail, ctx):
    fid = findings.classify(ID, kind, case)
    if fid:
        ctx.known(fid)
        return
    raise Violation(kind, case, detail)


def check_case(case, ctx):
    from pregex.core.pre import Pregex
    built = pat.build_or_none(case['tree'])
    if built is None:
        ctx.count('skipped:pattern_not_buildable')
        ctx.case(case, False)
        return
    p, rx = built
    texts = pat.subject_texts(case['tree'], case['tseed'], case.get('xt', ()), big=case.get('big', 0))
    texts.sort(key=len, reverse=True)      # index 0 is the longest text (the big one when there is one): asked for most often
    model_compiled = False
    attr = '_Pregex__compiled'
    has_attr = hasattr(p, attr)
    seen_compile = before = after = discards = 0
    multi = False
    what = dsl.render(case['tree'])
    for step, op in enumerate(case['ops']):
        name = op[0]
        if name == 'compile':
            p.compile()
            model_compiled = True
            seen_compile += 1
        elif name == 'gcp':
            c = p.get_compiled_pattern(discard_after=op[1])
            if not isinstance(c, re.Pattern):
                violation('compiled_type', case, f'{what}: get_compiled_pattern returned {type(c).__name__}', ctx)
            elif (c.flags & (re.M | re.S)) != (re.M | re.S):
                violation('compiled_flags', case, f'{what}: compiled pattern flags {c.flags!r} lack MULTILINE|DOTALL', ctx)
            else:
                for t in texts[:4]:
                    if dsl.observe(c, t) != dsl.observe(rx, t):
                        violation('compiled_differs', case, f'{what}: compiled pattern {c.pattern!r} and str(p) {str(p)!r} disagree on {t!r}: '
                                  f'{dsl.observe(c, t)} vs {dsl.observe(rx, t)}', ctx)
                        break
            model_compiled = not op[1]
            seen_compile += 1
            discards += bool(op[1])
        elif name == 'purge':
            Pregex.purge()
        elif name == 'wear':
            pat.wear(p, op[1])           # a long history of ordinary matching calls on this very instance
            ctx.count('history:wear')
        else:
            t = texts[op[1] % len(texts)]
            ms = list(rx.finditer(t))
            if len(ms) >= 2:
                multi = True
            if seen_compile:
                after += 1
            else:
                before += 1
            if name == 'has':
                got, want = p.has_match(t), bool(ms)
            elif name == 'exact':
                got, want = p.is_exact_match(t), rx.fullmatch(t) is not None
            elif name == 'gm':
                got, want = p.get_matches(t), [m.group(0) for m in ms]
            elif name == 'im':
                got, want = list(p.iterate_matches(t)), [m.group(0) for m in ms]
            elif name == 'gmp':
                got, want = p.get_matches_and_pos(t), [(m.group(0), *m.span()) for m in ms]
            else:
                got, want = list(p.iterate_matches_and_pos(t)), [(m.group(0), *m.span()) for m in ms]
            snapshot_got = list(got) if isinstance(got, list) else got
            if isinstance(got, list):
                # the returned list is the caller's: scribbling on it must not influence any later answer
                got.reverse()
                got.append('<scribble>')
                del got[:1]
                got = snapshot_got
            if got != want:
                violation(f'result:{name}', case, f'{what} (pattern {str(p)!r}) step {step} {name}({t!r}) with cache '
                          f'{"compiled" if model_compiled else "empty"} = {got!r}; re gives {want!r}', ctx)
                break
            if name in ('gmp', 'imp'):
                for (g, s, e) in got:
                    if t[s:e] != g:
                        violation('position', case, f'{what}: reported ({g!r},{s},{e}) but source[{s}:{e}] = {t[s:e]!r}', ctx)
        if has_attr and (getattr(p, attr) is not None) != model_compiled:
            violation('cache_state', case, f'{what}: after step {step} {op} the compiled-pattern cache is '
                      f'{"set" if getattr(p, attr) is not None else "empty"}, documented model says '
                      f'{"set" if model_compiled else "empty"}', ctx)
            break
    nontrivial = before >= 1 and after >= 1 and discards >= 1 and multi
    ctx.count('with_multi_match_text' if multi else 'without_multi_match_text')
    ctx.case(case, nontrivial, sample={'expr': what, 'ops': [o[0] + (str(o[1]) if len(o) > 1 else '') for o in case['ops']][:12],
                                       'texts': texts[:3]} if nontrivial else None)


def strategy(spec, ctx):
    op = st.one_of(
        st.just(['compile']), st.booleans().map(lambda b: ['gcp', b]), st.just(['purge']),
        st.tuples(st.sampled_from(MATCH_OPS), st.integers(0, 11)).map(list),
        st.tuples(st.sampled_from(MATCH_OPS), st.integers(0, 11)).map(list),
        st.tuples(st.sampled_from(MATCH_OPS), st.sampled_from([0, 0, 0, 1])).map(list),      # the same (longest) texts again and again
    )
    op = st.one_of(*[op] * 12, st.sampled_from([130, 130, 300, 1100]).map(lambda n: ['wear', n]))
    feats = dsl.swarm_features(ctx.seed, ctx.shard_index)
    return st.fixed_dictionaries({
        'tree': dsl.tree_strategy(feats, max_leaves=5),
        'tseed': st.integers(0, 2 ** 16),
        'big': st.sampled_from([0, 0, 0, 0, 70, 900, 3000]),
        'ops': st.one_of(st.lists(op, min_size=4, max_size=30), st.lists(op, min_size=4, max_size=30), st.lists(op, min_size=30, max_size=80)),
        'xt': st.lists(st.text(st.sampled_from(list('ab \n\n.1-_Aé')), max_size=12), max_size=2),
    })


def anchored_alternations():
    """Every way of anchoring the alternatives of a two- or three-way alternation (none / start / end / line start / line end
    each), over a few operands, asked through every matching method before and after compiling: an anchor binds tighter than
    '|', so whether a pattern 'is anchored' can never be read off its first and last characters."""
    anchors = [None, 'start', 'end', 'lstart', 'lend']
    ws = ['q', 'plus', 'class', ['cls', ['named', 'AnyWhitespace']], 0, None, True]
    operands = [['lit', 'a', True], ws, ['lit', 'ab', False]]

    def wrap(a, x):
        return x if a is None else ['anchor', a, 'class', x]
    ops = [[m, i] for i in range(8) for m in ('has', 'exact', 'gm')] + [['compile']] + [[m, i] for i in range(8) for m in ('has', 'exact', 'gmp')] + \
          [['gcp', True]] + [['has', i] for i in range(8)]
    xt = ['a  ', '  a', ' a \n', 'ab', ' \n ab', 'hello  ', 'a\nab\n ', ' ']
    for a1 in anchors:
        for a2 in anchors:
            for x in operands:
                for y in operands:
                    yield {'tree': ['alt', 'class', [wrap(a1, x), wrap(a2, y)]], 'tseed': 1, 'big': 0, 'ops': ops, 'xt': xt}
            for a3 in anchors:
                yield {'tree': ['alt', 'method', [wrap(a1, operands[0]), wrap(a2, operands[1]), wrap(a3, operands[2])]], 'tseed': 2, 'big': 0, 'ops': ops, 'xt': xt}


def shards(tier):
    n = 15 if tier == 'quick' else 63
    return [{'examples': 800 if tier == 'quick' else 6000} for _ in range(n)] + [{'mode': 'anchored_alternations'}]


def run_shard(spec, ctx):
    if spec.get('mode') == 'anchored_alternations':
        from pbt.common import run_enumeration
        run_enumeration(ctx, anchored_alternations(), check_case, 'two- and three-way alternations with every combination of anchors on the alternatives')
        return
    run_hypothesis(ctx, strategy(spec, ctx), check_case, spec['examples'])

"""C12 - capture extraction is consistent with the source text and group identity.

Oracle straight from re.Match objects of re.compile(str(p), M|S): one entry per match; entry k is
(m.group(k), *m.span(k)) (named: under its name, the span of *that* group), shifted by m.start() when
relative_to_match and the group participated; non-participating groups are None / (None, -1, -1);
include_empty=False removes exactly the entries whose text is ''; slicing the source (or the match) at a
reported position reproduces the captured text; iterate_* == get_*.
"""
from hypothesis import strategies as st

from pbt import dsl, findings, pat
from pbt.common import Violation, run_hypothesis

ID = 'C12'
RULE = ('Hypothesis: DSL trees biased to capturing groups in any order (named / unnamed, nested, optional, inside alternations, '
        'empty-capable through Optional/Indefinite) x multi-line texts derived from the pattern x include_empty x relative_to_match, '
        'through get_/iterate_ captures, captures_and_pos, named_captures, named_captures_and_pos. '
        'Non-trivial = some match exists and (an unnamed group precedes a named one, or a group did not participate, or an '
        'empty capture occurred). Distinct = distinct serialised case.')
ASSUMPTIONS = ['re.Match objects of re.compile(str(p), MULTILINE|DOTALL) are the reference']


def violation(kind, case, detail, ctx):
    fid = findings.classify(ID, kind, case)
    if fid:
        ctx.known(fid)
        return
    raise Violation(kind, case, detail)


def expected(rx, t, ie, rel):
    caps, caps_pos, named, named_pos = [], [], [], []
    for m in rx.finditer(t):
        gs = m.groups()
        caps.append(gs if ie else tuple(g for g in gs if g != ''))
        lst = []
        for k, g in enumerate(gs, 1):
            if ie or g != '':
                s, e = m.span(k)
                if rel and s > -1:
                    s, e = s - m.start(), e - m.start()
                lst.append((g, s, e))
        caps_pos.append(lst)
        gd = m.groupdict()
        named.append(gd if ie else {k: v for k, v in gd.items() if v != ''})
        d = {}
        for name, v in gd.items():
            if ie or v != '':
                s, e = m.span(name)
                if rel and s > -1:
                    s, e = s - m.start(), e - m.start()
                d[name] = (v, s, e)
        named_pos.append(d)
    return caps, caps_pos, named, named_pos


def check_case(case, ctx):
    built = pat.build_or_none(case['tree'])
    if built is None:
        ctx.count('skipped:pattern_not_buildable')
        ctx.case(case, False)
        return
    p, rx = built
    pat.apply_state(p, case.get('state', 'plain'))
    ctx.count(f"state:{case.get('state', 'plain')}")
    ie, rel = case['include_empty'], case['relative']
    what = f"{dsl.render(case['tree'])} (pattern {str(p)!r})"
    interesting = False
    anymatch = False
    names = dict(rx.groupindex)
    unnamed_before_named = any(idx > pos for pos, (n, idx) in enumerate(sorted(names.items(), key=lambda x: x[1]), 1))
    for t in pat.subject_texts(case['tree'], case['tseed'], case.get('xt', ()), big=case.get('big', 0))[:10]:
        caps, caps_pos, named, named_pos = expected(rx, t, ie, rel)
        ms = list(rx.finditer(t))
        if ms and rx.groups:
            anymatch = True
        for m in ms:
            if any(g is None for g in m.groups()) or any(g == '' for g in m.groups()):
                interesting = True
        calls = [
            ('get_captures', p.get_captures(t, ie), caps),
            ('iterate_captures', list(p.iterate_captures(t, ie)), caps),
            ('get_captures_and_pos', p.get_captures_and_pos(t, ie, rel), caps_pos),
            ('iterate_captures_and_pos', list(p.iterate_captures_and_pos(t, ie, rel)), caps_pos),
            ('get_named_captures', p.get_named_captures(t, ie), named),
            ('iterate_named_captures', list(p.iterate_named_captures(t, ie)), named),
            ('get_named_captures_and_pos', p.get_named_captures_and_pos(t, ie, rel), named_pos),
            ('iterate_named_captures_and_pos', list(p.iterate_named_captures_and_pos(t, ie, rel)), named_pos),
        ]
        for name, got, want in calls:
            if got != want:
                violation(f'result:{name.replace("iterate_", "get_")}', case,
                          f'{what}.{name}({t!r}, include_empty={ie}, relative_to_match={rel}) = {got!r}; from re.Match: {want!r}', ctx)
                break
        # slicing identity on what the library reported
        for m, lst, d in zip(ms, p.get_captures_and_pos(t, ie, rel), p.get_named_captures_and_pos(t, ie, rel)):
            off = m.start() if rel else 0
            for (g, s, e) in list(lst) + list(d.values()):
                if g is None:
                    if (s, e) != (-1, -1):
                        violation('nonparticipating_position', case, f'{what} on {t!r}: non-participating group reported at ({s},{e})', ctx)
                elif t[off + s:off + e] != g:
                    violation('slice_identity', case, f'{what} on {t!r}: reported ({g!r},{s},{e}) but slicing gives {t[off + s:off + e]!r}', ctx)
                elif rel and 0 <= s and off + e <= m.end() and m.group(0)[s:e] != g:
                    # (a group captured inside a lookaround may lie outside the match; only then can the match not be sliced)
                    violation('slice_identity', case, f'{what} on {t!r}: reported ({g!r},{s},{e}) relative to the match {m.group(0)!r}', ctx)
    # interleaved generators: every iterate_* call is an independent computation, however the caller advances them
    if case.get('lockstep'):
        t = pat.subject_texts(case['tree'], case['tseed'], case.get('xt', ()))[0:3][-1]
        combos = [(True, True), (True, False), (False, True), (False, False)]
        its = [(a, b, p.iterate_captures_and_pos(t, a, b), p.iterate_named_captures_and_pos(t, a, b)) for a, b in combos]
        outs = [([], []) for _ in its]
        alive = True
        k = 0
        while alive:
            alive = False
            order = its if k % 2 == 0 else its[::-1]
            for idx, (a, b, it1, it2) in enumerate(order):
                real = its.index((a, b, it1, it2))
                for which, it in ((0, it1), (1, it2)):
                    try:
                        outs[real][which].append(next(it))
                        alive = True
                    except StopIteration:
                        pass
                if k % 3 == 1:
                    p.split_by_capture(t, not a)          # an unrelated call on the same object in between
            k += 1
        for (a, b, _, _), (o1, o2) in zip(its, outs):
            _, caps_pos, _, named_pos = expected(rx, t, a, b)
            if o1 != caps_pos or o2 != named_pos:
                violation('interleaved_iterators', case, f'{what}: iterate_(named_)captures_and_pos({t!r}, include_empty={a}, relative_to_match={b}) '
                          f'advanced in lock-step with three other iterators gave {o1!r} / {o2!r}; expected {caps_pos!r} / {named_pos!r}', ctx)
        ctx.count('lockstep_cases')
    if unnamed_before_named:
        ctx.count('unnamed_group_precedes_named')
    nontrivial = anymatch and (interesting or unnamed_before_named)
    ctx.case(case, nontrivial, sample={'expr': dsl.render(case['tree']), 'pattern': str(p), 'include_empty': ie,
                                       'relative_to_match': rel} if nontrivial else None)


def _many_groups(t):
    """9-120 capturing groups in one pattern (two- and three-digit group numbers), a pseudo-random third of them named,
    some optional: (a)(?P<g3>b)?(c)..."""
    import random
    n, seed = t
    rng = random.Random(seed)
    items = []
    for i in range(n):
        c = ['cap', 'class' if i % 2 else 'method', ['lit', 'abcdefghij'[i % 10], bool(i % 3)], f'g{i}' if rng.random() < 0.33 else None]
        if rng.random() < 0.2:
            c = ['q', 'opt', 'class', c, 0, None, True]
        items.append(c)
    return ['cat', 'class', items]


def layout_strategy():
    """Group layouts built on purpose: 2-5 capturing groups in a row, each named or unnamed (any order), optionally
    optional / empty-capable / inside an alternation / nested in another capture, separated by small literals."""
    atom = st.sampled_from([['lit', 'a', True], ['lit', 'b', False], ['cls', ['named', 'AnyDigit']], ['cls', ['named', 'AnyLetter']],
                            ['lit', '-', True], ['q', 'star', 'class', ['lit', 'a', True], 0, None, True],
                            ['q', 'opt', 'method', ['cls', ['named', 'AnyDigit']], 0, None, True], ['lit', 'ab', True]])
    name = st.one_of(st.none(), st.none(), st.sampled_from(dsl.NAMES))
    sp = st.sampled_from(['class', 'method'])
    cap = st.tuples(sp, atom, name).map(lambda t: ['cap', t[0], t[1], t[2]])
    nested = st.tuples(sp, sp, atom, atom, name, name).map(
        lambda t: ['cap', t[0], ['cat', 'class', [t[2], ['cap', t[1], t[3], t[5]]]], t[4]])
    opt = st.tuples(st.one_of(cap, nested), st.booleans()).map(lambda t: ['q', 'opt', 'class', t[0], 0, None, t[1]])
    alt = st.tuples(cap, cap).map(lambda t: ['alt', 'class', [t[0], t[1]]])
    # captures inside lookarounds, attached to a match that may be zero-width (the (?=(..)) "overlapping matches" idiom)
    zero = st.sampled_from([['empty', 0], ['wb'], ['q', 'opt', 'class', ['lit', 'q', True], 0, None, True], ['q', 'star', 'method', ['lit', 'a', False], 0, None, False],
                            ['lit', 'a', True]])
    look = st.tuples(st.sampled_from(['fb', 'fb', 'pb', 'eb', 'nfb']), sp, zero, st.one_of(cap, nested)).map(lambda t: ['look', t[0], t[1], t[2], [t[3]]])
    item = st.one_of(cap, cap, cap, nested, opt, opt, alt, atom, look)
    solo_look = look.map(lambda x: dsl.uniquify_names(x))
    many = st.tuples(st.sampled_from([9, 10, 11, 12, 20, 33, 64, 99, 100, 101, 120]), st.integers(0, 2 ** 16)).map(_many_groups)
    return st.one_of(st.lists(item, min_size=2, max_size=5).map(lambda xs: dsl.uniquify_names(['cat', 'class', xs])),
                     st.lists(item, min_size=2, max_size=5).map(lambda xs: dsl.uniquify_names(['cat', 'class', xs])), many, solo_look)


def strategy(spec, ctx):
    if ctx.shard_index % 2 == 0:
        return st.fixed_dictionaries({'tree': layout_strategy(), 'tseed': st.integers(0, 2 ** 16), 'state': st.sampled_from(pat.STATES), 'big': st.sampled_from([0, 0, 0, 40, 400]), 'lockstep': st.booleans(),
                                      'include_empty': st.booleans(), 'relative': st.booleans()})
    feats = ['cap', 'cap', 'cap', 'cat', 'alt', 'q', 'grp', 'cls', 'strarg', 'look', 'enc']
    if ctx.shard_index % 3 == 1:
        feats = ['cap', 'cat', 'q', 'alt']
    return st.fixed_dictionaries({
        'tree': dsl.tree_strategy(feats, max_leaves=6),
        'tseed': st.integers(0, 2 ** 16),
        'include_empty': st.booleans(),
        'relative': st.booleans(),
        'state': st.sampled_from(pat.STATES),
        'lockstep': st.sampled_from([False, False, True]),
    })


def shards(tier):
    n = 16 if tier == 'quick' else 64
    return [{'examples': 1000 if tier == 'quick' else 8000} for _ in range(n)]


def run_shard(spec, ctx):
    run_hypothesis(ctx, strategy(spec, ctx), check_case, spec['examples'])

"""C16 - Decimal patterns constrain integer part and fraction length exactly.

Oracle (exact match): text = [sign] intpart '.' fraction is accepted iff intpart is a canonical numeral in
[start, end] (or is absent and start == 0), the fraction is a digit string with min_decimal <= len <=
max_decimal (None = unbounded), and the sign obeys the variant (Decimal: none / optional +- with
include_sign; Positive: optional +; Negative: mandatory -; Unsigned: none). Each single-fault mutant must be
rejected. get_matches over space-separated unsigned candidates equals the model list. Invalid bounds raise
the documented exceptions.
"""
import re

from hypothesis import strategies as st

from pbt import dsl, findings
from pbt.common import Violation, run_hypothesis
from pbt.props.c15 import bounds_strategy, canonical, numeral_near

ID = 'C16'
RULE = ('Hypothesis: (start, end) as in C15 x (min_decimal, max_decimal) over 1..5 / None incl. equal bounds x 4 variants x '
        'include_sign x candidates assembled from (sign, integer part, dot, fraction) with single faults: leading zero, out-of-range '
        'integer part, fraction one too short/long, missing dot / fraction / integer part, wrong sign for the variant, second dot; '
        'exact match per candidate and get_matches over space-separated unsigned candidates; invalid bounds (non-int, bool, < 1, '
        'inverted). Non-trivial = >= 1 accepted and >= 1 rejected candidate in the case (or an invalid-bounds case). '
        'Distinct = distinct serialised case.')
ASSUMPTIONS = ['contexts where a candidate touches another "." or digit are unspecified and not generated',
               'an integer part "0" under Positive/Negative variants is unspecified',
               'ASCII digits only']


def violation(kind, case, detail, ctx):
    fid = findings.classify(ID, kind, case)
    if fid:
        ctx.known(fid)
        return
    raise Violation(kind, case, detail)


POSITIONAL = [4]       # how many leading documented parameters are passed positionally (set per case)


def make(variant, start, end, mn, mx, inc, ext=False):
    import pregex.meta.essentials as es
    from pbt import pat
    values = {'start': start, 'end': end, 'min_decimal': mn, 'max_decimal': mx, 'is_extensible': ext}
    if variant == 'Decimal':
        values['include_sign'] = inc
    return pat.call_documented(getattr(es, variant), values, POSITIONAL[0])


def model(variant, inc, start, end, mn, mx, text):
    """True / False / None (unspecified) for an exact match."""
    m = re.fullmatch(r'([+-]?)([0-9]*)\.([0-9]*)', text)
    if m is None or not text.isascii():
        return False
    sign, ip, frac = m.groups()
    if not (mn <= len(frac) and (mx is None or len(frac) <= mx)):
        return False
    if ip == '':
        if start != 0:
            return False
    else:
        if not canonical(ip) or not (start <= int(ip) <= end):
            return False
        if ip == '0' and variant in ('PositiveDecimal', 'NegativeDecimal'):
            return None
    if variant == 'Decimal':
        return sign == '' or bool(inc)
    if variant == 'PositiveDecimal':
        return sign in ('', '+')
    if variant == 'NegativeDecimal':
        return sign == '-'
    return sign == ''


BAD = {'float': 1.5, 'str': '2', 'bool': True, 'zero': 0, 'neg': -1, 'list': [1]}


def check_defaults(case, ctx):
    """Arguments left out behave like the documented defaults: start=0, end=2147483647, min_decimal=1, max_decimal=None."""
    import pregex.meta.essentials as es
    variant, kw = case['variant'], dict(case['kw'])
    p = getattr(es, variant)(**kw)
    start, end = kw.get('start', 0), kw.get('end', 2147483647)
    mn, mx = kw.get('min_decimal', 1), kw.get('max_decimal', None)
    acc = rej = 0
    for t in case['candidates']:
        cand = ('-' if variant == 'NegativeDecimal' else '') + t
        want = model(variant, False, start, end, mn, mx, cand)
        if want is None:
            continue
        got = p.is_exact_match(cand)
        acc += want
        rej += not want
        if got != want:
            violation('defaults', case, f"{variant}({', '.join(f'{k}={v}' for k, v in kw.items())}).is_exact_match({cand!r}) = {got}; with the "
                      f'documented defaults the model says {want}', ctx)
            break
    ctx.count('mode:defaults')
    ctx.case(case, acc > 0 and rej > 0, sample={'call': f'{variant}({kw})', 'candidates': case['candidates'][:6]})


def check_case(case, ctx):
    POSITIONAL[0] = case.get('positional', 4)
    ctx.count(f'positional_args:{POSITIONAL[0]}')
    if case['mode'] == 'defaults':
        return check_defaults(case, ctx)
    variant, inc = case['variant'], case['include_sign']
    start, end, mn, mx = case['start'], case['end'], case['min'], case['max']
    args = f'{start}, {end}, {mn!r}, {mx!r}' + (f', include_sign={inc}' if variant == 'Decimal' else '')
    what = f'{variant}({args})'
    if case['mode'] == 'invalid':
        mnv = BAD[mn[1]] if isinstance(mn, list) else mn
        mxv = BAD[mx[1]] if isinstance(mx, list) else mx
        type_bad = any(isinstance(v, list) and v[1] in ('float', 'str', 'bool', 'list') for v in (mn, mx))
        value_bad = (isinstance(mn, list) and mn[1] in ('zero', 'neg')) or (isinstance(mx, list) and mx[1] in ('neg',)) or (
            isinstance(mnv, int) and isinstance(mxv, int) and not isinstance(mnv, bool) and not isinstance(mxv, bool) and mxv < mnv)
        allowed = set()
        if type_bad:
            allowed.add('InvalidArgumentTypeException')
        if value_bad:
            allowed.add('InvalidArgumentValueException')
        try:
            p = make(variant, start, end, mnv, mxv, inc)
            got = None
        except Exception as ex:  # noqa: BLE001
            if type(ex).__name__ == 'CaseTimeout':
                raise
            got = type(ex).__name__
        if allowed and got not in allowed:
            violation('invalid_bounds', case, f'{variant}(min_decimal={mnv!r}, max_decimal={mxv!r}) -> {got or "a pattern"}; documented {sorted(allowed)}', ctx)
        if not allowed and got is not None:
            violation('valid_bounds_rejected', case, f'{variant}(min_decimal={mnv!r}, max_decimal={mxv!r}) raised {got}', ctx)
        ctx.case(case, bool(allowed), sample={'call': f'{variant}(min_decimal={mnv!r}, max_decimal={mxv!r})', 'outcome': got})
        return
    if case['mode'] == 'ext':
        # extensible form: prefix + X + suffix matches prefix+candidate+suffix in full iff the candidate is valid
        from pregex.core.pre import Pregex
        prefix, suffix = case['prefix'], case['suffix']
        q = Pregex(prefix) + make(variant, start, end, mn, mx, inc, ext=True)
        if suffix:
            q = q + suffix
        acc = rej = 0
        for t in case['candidates']:
            if t[:1] in ('+', '-'):
                continue
            want = model(variant, inc, start, end, mn, mx, t)
            if want is None:
                continue
            if prefix == '' and not t.startswith('.'):
                # the extensible integer part is specified "for any non-digit prefix pattern" (C15): with nothing in front of it, only
                # numerals without an integer part are judged
                ctx.count('unspecified:bare_extensible_integer_part')
                continue
            got = q.is_exact_match(prefix + t + suffix)
            acc += want
            rej += not want
            if got != want:
                violation('extensible', dict(case, candidates=[t]), f'(Pregex({prefix!r}) + {what[:-1]}, is_extensible=True) + {suffix!r})'
                          f'.is_exact_match({prefix + t + suffix!r}) = {got}; model {want}', ctx)
                break
        ctx.count('mode:ext')
        nt = acc > 0 and rej > 0
        ctx.case(case, nt, sample={'call': what + ' extensible', 'prefix': prefix, 'suffix': suffix, 'candidates': case['candidates'][:6]} if nt else None)
        return
    p = make(variant, start, end, mn, mx, inc)
    rx = re.compile(str(p), dsl.FLAGS)
    acc = rej = 0
    for t in case['candidates']:
        want = model(variant, inc, start, end, mn, mx, t)
        if want is None:
            ctx.count('unspecified_candidate')
            continue
        got = rx.fullmatch(t) is not None
        acc += want
        rej += not want
        if got != want or p.is_exact_match(t) != want:
            violation('exact_match', dict(case, candidates=[t]), f'{what}.is_exact_match({t!r}) = {got}; model {want}', ctx)
            break
    # get_matches over space-separated unsigned candidates
    toks = [t for t in case['candidates'] if t and t[0] not in '+-' and re.fullmatch(r'[0-9]*\.?[0-9]*', t) and t.count('.') <= 1]
    if toks:
        verdicts = [model(variant, inc, start, end, mn, mx, t) for t in toks]
        if None not in verdicts:
            text = ' '.join(toks)
            want = [t for t, v in zip(toks, verdicts) if v]
            got = p.get_matches(text)
            if got != want:
                violation('get_matches', dict(case, candidates=toks), f'{what}.get_matches({text!r}) = {got!r}; model {want!r}', ctx)
    ctx.count(f'variant:{variant}')
    nt = acc > 0 and rej > 0
    ctx.case(case, nt, sample={'call': what, 'candidates': case['candidates'][:8]} if nt else None)


@st.composite
def gen_case(draw):
    variant = draw(st.sampled_from(['Decimal', 'Decimal', 'PositiveDecimal', 'NegativeDecimal', 'UnsignedDecimal']))
    inc = draw(st.booleans()) if variant == 'Decimal' else False
    start, end = draw(bounds_strategy())
    if draw(st.integers(0, 3)) == 0:
        start = 0          # "no integer part at all when start is 0": a third of the cases are about that clause
    if draw(st.integers(0, 9)) == 0:
        bad = st.sampled_from(sorted(BAD)).map(lambda k: ['bad', k])
        mn = draw(st.one_of(bad, st.integers(1, 4)))
        mx = draw(st.one_of(bad.filter(lambda b: b[1] != 'zero'), st.none(), st.integers(1, 5)))
        return {'mode': 'invalid', 'variant': variant, 'include_sign': inc, 'start': start, 'end': end, 'min': mn, 'max': mx}
    mn = draw(st.one_of(st.integers(1, 4), st.integers(1, 4), st.sampled_from([9, 10, 11, 16, 32, 33, 64, 100])))
    mx = draw(st.one_of(st.none(), st.integers(mn, mn + 3), st.sampled_from([mn, mn + 9, mn + 10, mn + 90, 255, 256, 1000]).filter(lambda v: v >= mn)))
    num = numeral_near(start, end)
    digits = st.text(st.sampled_from('0123456789'), min_size=0, max_size=9)

    def frac_near(k):
        return st.tuples(st.sampled_from([mn - 1, mn, mn + 1, (mx or mn + 2) - 1, (mx or mn + 2), (mx or mn + 2) + 1, 0]),
                         st.integers(0, 9)).map(lambda t: ''.join(str((t[1] + i) % 10) for i in range(max(0, t[0]))))
    cand = st.tuples(st.sampled_from(['', '', '', '+', '-']), st.one_of(num, num, st.just(''), digits),
                     st.sampled_from(['.', '.', '.', '.', '', '..', ',']), st.one_of(frac_near(0), frac_near(0), digits)).map(''.join)
    cands = draw(st.lists(cand, min_size=4, max_size=12))
    if start == 0:         # numerals without an integer part, with fraction lengths around the bounds
        cands = cands + ['.' + draw(frac_near(0)), '.' + draw(frac_near(0))]
    if draw(st.integers(0, 9)) == 0:
        kw = draw(st.fixed_dictionaries({}, optional={'start': st.integers(0, 10 ** 9), 'min_decimal': st.integers(1, 3),
                                                      'max_decimal': st.integers(3, 6)}))
        big = st.sampled_from([2 ** 30, 2 ** 30 + 1, 1500000000, 2 ** 31 - 1, 2 ** 31, 2 ** 32, 999999999, 10 ** 9, 3000000000, 5, 0]).map(str)
        intpart = st.one_of(big, big, st.integers(0, 2 ** 33).map(str), st.just(''))
        c2 = st.tuples(intpart, st.sampled_from(['.', '.', '.', '']), st.text(st.sampled_from('0123456789'), min_size=0, max_size=7)).map(''.join)
        return {'mode': 'defaults', 'variant': variant, 'include_sign': False, 'kw': kw, 'candidates': draw(st.lists(c2, min_size=4, max_size=10))}
    if draw(st.integers(0, 3)) == 0:
        return {'mode': 'ext', 'variant': draw(st.sampled_from(['Decimal', 'UnsignedDecimal'])), 'include_sign': False, 'start': start,
                'end': end, 'min': mn, 'max': mx, 'candidates': cands, 'positional': draw(st.sampled_from([0, 4, 6])), 'prefix': draw(st.sampled_from(['id', 'x=', '#', 'No ', '(', '', '', ' ', 'a\n', '\t', '\u00e9', '_', ': '])),
                'suffix': draw(st.sampled_from(['', '', 'rad', ' m', ')', '%']))}
    return {'mode': 'match', 'variant': variant, 'include_sign': inc, 'start': start, 'end': end, 'min': mn, 'max': mx,
            'candidates': cands, 'positional': draw(st.sampled_from([0, 2, 4, 4, 5, 6]))}


def shards(tier):
    n = 16 if tier == 'quick' else 64
    return [{'examples': 800 if tier == 'quick' else 6000} for _ in range(n)]


def run_shard(spec, ctx):
    run_hypothesis(ctx, gen_case(), check_case, spec['examples'])

"""C01 - plain strings are matched literally wherever they are accepted.

(a) alone: p = Pregex(s): p.is_exact_match(t) <=> t == s for t in near(s) (edits of s and the "if it were
    regex syntax" readings); every element of p.get_matches(x+s+y) is s and there are (x+s+y).count(s) of them;
    get_pattern() compiles and gives the same verdicts.
(b) in position: a DSL expression whose operands are raw Python strings (handed to every argument position
    that accepts str: operators in class/method/operator form, on_right=False, quantifier classes, Group,
    Capture, anchors, match and assertion positions of the lookarounds, Conditional pre1/pre2) is equivalent to
    the reference built with (?:re.escape(s)) at each hole.
"""
import inspect
import itertools
import re

from hypothesis import strategies as st

from pbt import dsl, findings, treecheck
from pbt.common import HarnessError, Violation, run_enumeration, run_hypothesis

ID = 'C01'
RULE = ('(a) every string of length <= 2 (quick) / <= 3 (thorough) over a 36-character metacharacter-heavy alphabet, enumerated '
        'completely, plus Hypothesis strings over all of Unicode (40% regex metacharacters and backslashes, control, quotes, '
        'syntax-looking fragments), each against ~20-60 near-miss texts; (b) Hypothesis expression trees whose leaves are raw str '
        'arguments in every str-accepting position (cross-checked against inspect.signature of all public classes/methods), '
        'compared with the re.escape reference on targeted texts; Conditional pre1/pre2 through Optional(Capture(x,"n")) + '
        'Conditional("n", s1, s2). Non-trivial = the string has a regex metacharacter, backslash, control or non-ASCII character '
        'and >= 1 near-miss text was exercised. Distinct = distinct serialised case.')
ASSUMPTIONS = ['re.escape(s) is the reference spelling of the literal s', "s == '' follows C05; lone surrogates are not generated as literals"]

ALPHABET = list('\\^$()[]{}?+*.|/-') + list('aZ09_ \n\t"\'#<>=!:&~,') + ['é']
assert len(ALPHABET) == 36

COVERED = {
    'Pregex.pattern', 'concat.pre', 'either.pre', 'enclose.pre', '__add__.pre', '__radd__.pre',
    'followed_by.pre', 'preceded_by.pre', 'enclosed_by.pre', 'not_followed_by.pre', 'not_preceded_by.pre', 'not_enclosed_by.pre',
    'Concat.pres', 'Either.pres', 'Enclose.pre', 'Enclose.enclosing',
    'Optional.pre', 'Indefinite.pre', 'OneOrMore.pre', 'Exactly.pre', 'AtLeast.pre', 'AtMost.pre', 'AtLeastAtMost.pre',
    'Capture.pre', 'Group.pre', 'Conditional.pre1', 'Conditional.pre2',
    'MatchAtStart.pre', 'MatchAtEnd.pre', 'MatchAtLineStart.pre', 'MatchAtLineEnd.pre',
    'FollowedBy.match', 'FollowedBy.assertions', 'PrecededBy.match', 'PrecededBy.assertions', 'EnclosedBy.match',
    'EnclosedBy.assertions', 'NotFollowedBy.match', 'NotFollowedBy.assertions', 'NotPrecededBy.match',
    'NotPrecededBy.assertions', 'NotEnclosedBy.match', 'NotEnclosedBy.assertions',
}
_checked = False


def crosscheck_positions():
    """Every public parameter that accepts `Pregex | str` must be a position this check reaches."""
    global _checked
    if _checked:
        return
    import pregex.core.assertions as asr
    import pregex.core.groups as gr
    import pregex.core.operators as op
    import pregex.core.quantifiers as qu
    from pregex.core.pre import Pregex
    found = {'Pregex.pattern'}
    names = {'pre', 'pre1', 'pre2', 'match', 'pres', 'assertions', 'enclosing'}
    for mod in (asr, gr, op, qu):
        for cname, obj in vars(mod).items():
            if cname.startswith('_') or not inspect.isclass(obj) or obj.__module__ != mod.__name__:
                continue
            for p in inspect.signature(obj.__init__).parameters:
                if p in names:
                    found.add(f'{cname}.{p}')
    for mname, fn in inspect.getmembers(Pregex, predicate=inspect.isfunction):
        if mname.startswith('_') and mname not in ('__add__', '__radd__'):
            continue
        for p in inspect.signature(fn).parameters:
            if p in names:
                found.add(f'{mname}.{p}')
    missing = found - COVERED
    if missing:
        raise HarnessError(f'str-accepting positions not covered by C01: {sorted(missing)}')
    _checked = True


SYNTAX_READINGS = [('.', 'x'), ('*', ''), ('+', 'a'), ('?', ''), ('|', ''), ('^', ''), ('$', ''), ('\\d', '5'), ('\\w', 'a'),
                   ('\\s', ' '), ('\\n', '\n'), ('\\t', '\t'), ('\\\\', '\\'), ('[ab]', 'a'), ('[a-z]', 'q'), ('(a)', 'a'), ('(?:a)', 'a'),
                   ('a|b', 'a'), ('a|b', 'b'), ('{2}', ''), ('a{2}', 'aa'), ('\\b', ''), ('\\A', ''), ('\\Z', ''), ('\\.', '.'),
                   ('\\', ''), ('\\1', ''), ('(?i:a)', 'A'), ('/', '\\/'), ('\\/', '/')]


def near(s):
    out = [s, '', s + s]
    for i in range(len(s)):
        out.append(s[:i] + s[i + 1:])
        out.append(s[:i] + 'x' + s[i + 1:])
        out.append(s[:i] + s[i].swapcase() + s[i + 1:])
        out.append(s[:i] + s[i] + s[i:])
    for i in range(len(s) + 1):
        out.append(s[:i] + 'a' + s[i:])
        out.append(s[:i] + '\\' + s[i:])
        out.append(s[:i] + '\n' + s[i:])
    for frag, reading in SYNTAX_READINGS:
        if frag in s:
            out.append(s.replace(frag, reading))
            out.append(s.replace(frag, reading, 1))
    if len(s) >= 2:
        out.append(s[:-1])
        out.append(s[1:])
        out.append(s[0] * 2 + s[1:])
        out.append(s[:-2] + s[-1])
        out.append(s[:-1] + s[-2])
    seen, res = set(), []
    for t in out:
        if t not in seen:
            seen.add(t)
            res.append(t)
    return res[:80]


def violation(kind, case, detail, ctx):
    fid = findings.classify(ID, kind, case)
    if fid:
        ctx.known(fid)
        return
    raise Violation(kind, case, detail)


def special(s):
    return any((c in '\\^$()[]{}?+*.|/-') or ord(c) > 126 or ord(c) < 32 for c in s)


def check_alone(case, ctx):
    from pregex.core.pre import Pregex
    s = case['s']
    if s == '':
        ctx.case(case, False)
        return
    try:
        p = Pregex(dsl.TaggedStr(s)) if case.get('sub') else Pregex(s)
    except Exception as ex:  # noqa: BLE001
        if type(ex).__name__ == 'CaseTimeout':
            raise
        violation('constructor_raises', case, f'Pregex({s!r}) raised {type(ex).__name__}: {ex}', ctx)
        ctx.case(case, False)
        return
    texts = near(s)
    try:
        rexp = re.compile(p.get_pattern(), dsl.FLAGS)
    except re.error as ex:
        violation('export_not_compilable', case, f'Pregex({s!r}).get_pattern() = {p.get_pattern()!r}: {ex}', ctx)
        rexp = None
    for t in texts:
        got = p.is_exact_match(t)
        if got != (t == s):
            violation('exact_match_wrong', case, f'Pregex({s!r}) (pattern {str(p)!r}).is_exact_match({t!r}) = {got}', ctx)
            break
        if rexp is not None and (rexp.fullmatch(t) is not None) != (t == s):
            violation('export_differs', case, f'Pregex({s!r}).get_pattern() = {p.get_pattern()!r} fullmatch({t!r}) != {t == s}', ctx)
            break
    x, y = case.get('x', ' '), case.get('y', 'a')
    for hay in (x + s + y, s + s + x + s, y + s[:-1] + x + s):
        got = p.get_matches(hay)
        if any(g != s for g in got) or len(got) != hay.count(s):
            violation('matches_wrong', case, f'Pregex({s!r}).get_matches({hay!r}) = {got!r}; expected {hay.count(s)} x {s!r}', ctx)
            break
    nt = special(s) and len(texts) > 2
    ctx.case(case, nt, sample={'s': s, 'pattern': str(p), 'near_misses': len(texts) - 1} if nt else None)


OWNED_PREFIX = ('diff:', 'not_compilable', 'unexpected_exception', 'undocumented_use', 'leaf_failed', 'missing_exception')


def check_position(case, ctx):
    tree = dsl.entangle(case['tree'], case.get('entangle'))
    if tree is not case['tree']:
        ctx.count('entangled_literal')
    o = treecheck.evaluate(tree, case.get('tseed', 0), leaf_mode='escape', extra_texts=case.get('xt', ()))
    ctx.count(f'outcome:{o.kind.split(":")[0]}')
    if o.kind.startswith(OWNED_PREFIX):
        violation(o.kind.split(':')[0] if not o.kind.startswith('diff') else o.kind, case, f'{dsl.render(tree)}: {o.detail}', ctx)
    lits = dsl.literals(tree)
    for k in dsl.kinds(tree):
        ctx.count(f'position_under:{k}')
    nt = o.kind in ('ok', 'expected_exception') and any(special(s) for s in lits) and (o.matched or o.kind != 'ok')
    ctx.case(case, nt, sample={'expr': dsl.render(tree), 'emitted': o.pattern, 'reference': o.ref} if nt else None)


def check_conditional(case, ctx):
    A = dsl.ns()
    s1, s2, x = case['s1'], case['s2'], case['x']
    what = f"Optional(Capture({x!r}, 'n')) + Conditional('n', {s1!r}" + (f', {s2!r})' if s2 is not None else ')')
    try:
        cond = A['Conditional']('n', s1, s2) if s2 is not None else A['Conditional']('n', s1)
        p = A['Optional'](A['Capture'](x, 'n')) + cond
        ra = re.compile(str(p), dsl.FLAGS)
    except Exception as ex:  # noqa: BLE001
        if type(ex).__name__ == 'CaseTimeout':
            raise
        violation('conditional_fails', case, f'{what} raised {type(ex).__name__}: {ex}', ctx)
        ctx.case(case, False)
        return
    if s1 == '' or s2 == '':
        ctx.case(case, False)
        return
    no = f'|(?:{re.escape(s2)})' if s2 is not None else ''
    ref = f'(?:(?P<n>{re.escape(x)}))?(?(n)(?:{re.escape(s1)}){no})'
    rb = re.compile(ref, dsl.FLAGS)
    texts = [x + s1, s1, (s2 or ''), x + (s2 or ''), x, x + s1 + s1] + near(s1)[:25] + [x + t for t in near(s1)[:25]] + (near(s2)[:25] if s2 else [])
    d = dsl.equivalent(ra, rb, texts)
    if d:
        violation('diff:match', case, f'{what} printed {str(p)!r}, reference {ref!r}: {d}', ctx)
    nt = special(s1) or (s2 is not None and special(s2))
    ctx.case(case, nt, sample={'expr': what, 'emitted': str(p)} if nt else None)


def check_case(case, ctx):
    crosscheck_positions()
    mode = case.get('mode', 'alone')
    ctx.count(f'mode:{mode}')
    if mode == 'alone':
        check_alone(case, ctx)
    elif mode == 'cond':
        check_conditional(case, ctx)
    else:
        check_position(case, ctx)


def str_leaf(features=dsl.ALL_FEATURES):
    return st.tuples(dsl.literal_strategy(features, 1, 6), st.sampled_from([True, True, True, 'sub'])).map(lambda t: ['lit', t[0], t[1]])


def strategy(spec, ctx):
    mode = spec['mode']
    lit = dsl.literal_strategy(dsl.ALL_FEATURES, 1, 8)
    if mode == 'alone':
        return st.fixed_dictionaries({'mode': st.just('alone'), 's': lit, 'sub': st.sampled_from([False, False, False, True]), 'x': st.sampled_from([' ', '', 'a', '\\', '\n']),
                                      'y': st.sampled_from(['a', '', ' ', '$', '.'])})
    if mode == 'cond':
        return st.fixed_dictionaries({'mode': st.just('cond'), 's1': lit, 's2': st.one_of(st.none(), lit),
                                      'x': st.sampled_from(['x', 'ab', '.', '('])})
    feats = ['cat', 'alt', 'enc', 'q', 'grp', 'cap', 'anchor', 'look', 'strarg', 'meta', 'uni', 'ws', 'frag']
    if ctx.shard_index % 2:
        feats = [f for f in dsl.swarm_features(ctx.seed, ctx.shard_index) if f not in ('cls', 'tok', 'empty', 'wb')] + ['strarg', 'meta']
    return st.fixed_dictionaries({'mode': st.just('position'),
                                  'tree': dsl.tree_strategy(feats, max_leaves=spec.get('max_leaves', 4), leaf=str_leaf()),
                                  'tseed': st.integers(0, 2 ** 16), 'entangle': dsl.entangle_strategy()})


def enumerated(maxlen, part, parts):
    i = 0
    for n in range(1, maxlen + 1):
        for chars in itertools.product(ALPHABET, repeat=n):
            if i % parts == part:
                yield {'mode': 'alone', 's': ''.join(chars)}
            i += 1


def wrapped_cases():
    """Every printable ASCII character (alone and between letters) and every syntax-looking fragment, as a str argument under
    every pair of wrappers (plain / flagged group, unnamed / named capture, optional, concatenation): group conversions rewrite the
    *text* of their operand, and must never touch what a literal contributed to it."""
    strings = []
    for c in [chr(i) for i in range(32, 127)] + ['\n', '\t', '\u00e9']:
        strings += [c, 'a' + c + 'b']
    strings += list(dsl.FRAGMENTS)

    def wrap(x, w, name):
        if w == 'grp':
            return ['grp', 'class', x, False]
        if w == 'grp_ci':
            return ['grp', 'method', x, True]
        if w == 'cap':
            return ['cap', 'method', x, None]
        if w == 'capn':
            return ['cap', 'class', x, name]
        if w == 'opt':
            return ['q', 'opt', 'class', x, 0, None, True]
        return ['cat', 'class', [x, ['lit', 'z', True]]]
    ws = ['grp', 'grp_ci', 'cap', 'capn', 'opt', 'cat']
    for s in strings:
        for w1 in ws:
            for w2 in ws:
                yield {'mode': 'position', 'tree': wrap(wrap(['lit', s, True], w1, 'n'), w2, 'm'), 'tseed': 1}


def shards(tier):
    quick = tier == 'quick'
    out = []
    parts = 2 if quick else 16
    for p in range(parts):
        out.append({'mode': 'enumerate', 'maxlen': 2 if quick else 3, 'part': p, 'parts': parts})
    out.append({'mode': 'manycaps'})
    for mode, n, ex in (('alone', 3, 1000), ('position', 8, 1200), ('cond', 2, 800)):
        for i in range(n if quick else n * 3):
            out.append({'mode': mode, 'examples': ex if quick else ex * 8, 'max_leaves': 3 + i % 3})
    return out


def run_shard(spec, ctx):
    if spec['mode'] == 'manycaps':
        from pbt.props.c02 import manycaps_cases
        run_enumeration(ctx, (dict(c, mode='position') for c in manycaps_cases()), check_case,
                        'a digit-leading str after a two-digit backreference (10-13 groups)')
        run_enumeration(ctx, wrapped_cases(), check_case, 'printable characters and syntax-looking fragments as str arguments under every pair of 6 wrappers')
        return
    if spec['mode'] == 'enumerate':
        run_enumeration(ctx, enumerated(spec['maxlen'], spec['part'], spec['parts']), check_case,
                        f"all strings of length <= {spec['maxlen']} over the 36-character alphabet, used alone")
    else:
        run_hypothesis(ctx, strategy(spec, ctx), check_case, spec['examples'], label=spec['mode'])

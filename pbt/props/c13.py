"""C13 - splitting and replacing reconstruct the source exactly.

Oracle with spans from re.finditer on str(p): split_by_match has len(matches)+1 pieces and interleaving
pieces and matches rebuilds the source; split_by_capture likewise w.r.t. the selected captured spans (when
those are in non-decreasing, non-nested text order; unspecified otherwise); replace(src, r, c) equals the
hand-built string replacing the first c (all if 0) matches and equals r.join(split_by_match(src)) when all
are replaced; c < 0 raises InvalidArgumentValueException. Replacement strings are plain (no backslash).
"""
from hypothesis import strategies as st

from pbt import dsl, findings, pat
from pbt.common import Violation, run_hypothesis

ID = 'C13'
RULE = ('Hypothesis: DSL trees (incl. patterns matching the empty string, adjacent matches, matches at both ends, optional and '
        'empty-capable captures) x multi-line texts derived from the pattern x counts 0..5 and negative x plain replacement strings '
        'x include_empty. Non-trivial = some text has >= 2 matches or an empty match, and (for split_by_capture) a capture '
        'participated. Distinct = distinct serialised case.')
ASSUMPTIONS = ['re.finditer spans on str(p) are the reference; re.sub and finditer agree on empty matches (self-tested)',
               'split_by_capture is only judged when the selected captured spans are non-nested and in text order']


def violation(kind, case, detail, ctx):
    fid = findings.classify(ID, kind, case)
    if fid:
        ctx.known(fid)
        return
    raise Violation(kind, case, detail)


def check_case(case, ctx):
    built = pat.build_or_none(case['tree'])
    if built is None:
        ctx.count('skipped:pattern_not_buildable')
        ctx.case(case, False)
        return
    p, rx = built
    pat.apply_state(p, case.get('state', 'plain'))
    ctx.count(f"state:{case.get('state', 'plain')}")
    what = f"{dsl.render(case['tree'])} (pattern {str(p)!r})"
    r, c, ie = case['repl'], case['count'], case['include_empty']
    nontrivial = False
    for t in pat.subject_texts(case['tree'], case['tseed'], case.get('xt', ()), big=case.get('big', 0))[:10]:
        ms = list(rx.finditer(t))
        spans = [m.span() for m in ms]
        # split_by_match
        pieces = p.split_by_match(t)
        want, idx = [], 0
        for s, e in spans:
            want.append(t[idx:s])
            idx = e
        want.append(t[idx:])
        if pieces != want:
            violation('split_by_match', case, f'{what}.split_by_match({t!r}) = {pieces!r}; expected {want!r}', ctx)
        else:
            rebuilt = ''.join(a + m.group(0) for a, m in zip(pieces, ms)) + pieces[-1]
            if len(pieces) != len(ms) + 1 or rebuilt != t:
                violation('split_by_match', case, f'{what}.split_by_match({t!r}) does not rebuild the source', ctx)
        # replace
        if c < 0:
            try:
                out = p.replace(t, r, c)
                violation('replace_negative_count', case, f'{what}.replace({t!r}, {r!r}, {c}) returned {out!r}', ctx)
            except Exception as ex:  # noqa: BLE001
                if type(ex).__name__ == 'CaseTimeout':
                    raise
                if type(ex).__name__ != 'InvalidArgumentValueException':
                    violation('replace_negative_count', case, f'{what}.replace(..., {c}) raised {type(ex).__name__}', ctx)
        else:
            got = p.replace(t, r, c)
            k = len(spans) if c == 0 else min(c, len(spans))
            out, idx = [], 0
            for s, e in spans[:k]:
                out.append(t[idx:s])
                out.append(r)
                idx = e
            out.append(t[idx:])
            exp = ''.join(out)
            if got != exp:
                violation('replace', case, f'{what}.replace({t!r}, {r!r}, {c}) = {got!r}; expected {exp!r}', ctx)
            if c == 0 and got != r.join(pieces):
                violation('replace_vs_split', case, f'{what}: replace(all) {got!r} != repl.join(split_by_match) {r.join(pieces)!r}', ctx)
        # split_by_capture
        sel = []
        for m in ms:
            for k in range(1, rx.groups + 1):
                g = m.group(k)
                if g is None or (not ie and g == ''):
                    continue
                sel.append(m.span(k))
        ordered = all(sel[i][0] >= sel[i - 1][1] for i in range(1, len(sel)))
        if ordered:
            wantc, idx = [], 0
            for s, e in sel:
                wantc.append(t[idx:s])
                idx = e
            wantc.append(t[idx:])
            gotc = p.split_by_capture(t, ie)
            if gotc != wantc:
                violation('split_by_capture', case, f'{what}.split_by_capture({t!r}, include_empty={ie}) = {gotc!r}; expected {wantc!r}', ctx)
            if sel and (len(ms) >= 2 or any(s == e for s, e in spans)):
                ctx.count('split_by_capture_judged_nontrivially')
        else:
            ctx.count('split_by_capture_unspecified(nested or out of order)')
        if len(ms) >= 2 or any(s == e for s, e in spans):
            nontrivial = True
        if any(s == e for s, e in spans):
            ctx.count('text_with_empty_match')
        if any(spans[i][0] == spans[i - 1][1] for i in range(1, len(spans))):
            ctx.count('text_with_adjacent_matches')
    ctx.case(case, nontrivial, sample={'expr': dsl.render(case['tree']), 'pattern': str(p), 'repl': r, 'count': c} if nontrivial else None)


def strategy(spec, ctx):
    feats = dsl.swarm_features(ctx.seed, ctx.shard_index)
    if ctx.shard_index % 2:
        feats = ['cap', 'cat', 'q', 'alt', 'cls', 'strarg', 'grp']
    return st.fixed_dictionaries({
        'tree': dsl.tree_strategy(feats, max_leaves=5),
        'tseed': st.integers(0, 2 ** 16),
        # plain replacement strings: anything without a backslash - incl. what other template languages would expand ($1, {0}, %s, &),
        # the pattern's own metacharacters, non-ASCII, and strings longer than the text
        'repl': st.one_of(st.sampled_from(['', '-', '<>', 'é', 'ab', ' ', '$1', '\n', '{0}', '%s', '&', '$&', '{}', '%', 'g<1>', '(?:x)', '\U0001F600', 'r' * 300]),
                          st.text(st.sampled_from(list('ab1 -$&%{}()[]<>.*+?^|/"\'é\n\t\u0301')), max_size=10)),
        'big': st.sampled_from([0, 0, 0, 0, 70, 300, 3000]),
        'count': st.one_of(st.integers(0, 5), st.integers(-3, 2), st.sampled_from([9, 10, 63, 64, 65, 100, 255, 256, 257, 258, 300, 512, 1000])),
        'include_empty': st.booleans(),
        'state': st.sampled_from(pat.STATES),
    })


def shards(tier):
    n = 16 if tier == 'quick' else 64
    return [{'examples': 1000 if tier == 'quick' else 8000} for _ in range(n)]


def run_shard(spec, ctx):
    run_hypothesis(ctx, strategy(spec, ctx), check_case, spec['examples'])

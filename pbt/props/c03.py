"""C03 - every call yields a compilable, exportable pattern or a documented exception.

Three generators, one oracle:
  api   every public constructor / pattern-building method, found by introspection, with argument kinds
        the documentation describes (valid; wrong type; bool for int; out of range; bad group name; too few)
  tree  DSL expression trees (incl. class-algebra leaves), also checking the exported text
  cls   class-algebra expressions with valid and invalid operands
Oracle: the call raises a class defined in pregex.core.exceptions, or returns a Pregex p such that
re.compile(str(p), M|S) succeeds, p.get_pattern() is printable and compiles to a regex with the same
groups and the same observations on sampled texts. Any other exception type is a violation.
Every shard runs under its own PYTHONHASHSEED.
"""
import inspect
import re

from hypothesis import strategies as st

from pbt import charsets as cs
from pbt import dsl, findings, treecheck
from pbt.common import HarnessError, Violation, run_hypothesis

ID = 'C03'
RULE = ('three Hypothesis generators: (api) every public class of the seven core modules + meta.essentials and every '
        'pattern-building Pregex method (introspected; unknown parameters are a harness error) with per-parameter '
        'documented kinds of valid and invalid values; (tree) DSL expression trees <= 6 leaves; (cls) class-algebra '
        'expressions. Each shard runs under a different PYTHONHASHSEED. Non-trivial = not a no-argument constructor and '
        '(a documented exception was raised for an injected invalid argument, or the resulting pattern has >= 1 operator / '
        '>= 4 characters). Distinct = distinct serialised call.')
ASSUMPTIONS = ['only argument kinds that the documentation describes are generated (no wrong arity, no non-bool flags)',
               'Backreference/Conditional results are exempt from the stand-alone compile requirement (they reference '
               'groups defined elsewhere); duplicate group names are the caller\'s error',
               'whether the *right* documented exception is raised is left to the property that owns the argument (C04/C06/...)']

PATTERN_PARAMS = {'pre', 'pre1', 'pre2', 'match'}
VAR_PATTERN_PARAMS = {'pres', 'assertions', 'enclosing'}
BOOL_PARAMS = {'is_greedy', 'is_global', 'is_extensible', 'include_sign', 'is_case_insensitive', 'is_optional',
               'capture_local_part', 'capture_domain', 'escape', 'on_right'}
INT_PARAMS = {'n', 'm', 'n_min', 'n_max', 'min_chars', 'max_chars', 'min_decimal', 'max_decimal', 'base'}
OPTIONAL_INT = {'m', 'n_max', 'max_chars', 'max_decimal'}
AFFIX_PARAMS = {'infix', 'prefix', 'suffix'}
BUILD_METHODS = ['optional', 'indefinite', 'one_or_more', 'exactly', 'at_least', 'at_most', 'at_least_at_most', 'concat',
                 'either', 'enclose', 'capture', 'group', 'match_at_start', 'match_at_end', 'match_at_line_start',
                 'match_at_line_end', 'followed_by', 'preceded_by', 'enclosed_by', 'not_followed_by', 'not_preceded_by',
                 'not_enclosed_by', '__add__', '__radd__', '__mul__', '__rmul__']

_TARGETS = None


def targets():
    """[(label, callable-or-method-name, signature)] found by introspection."""
    global _TARGETS
    if _TARGETS is not None:
        return _TARGETS
    import pregex.core.assertions as asr
    import pregex.core.classes as cl
    import pregex.core.groups as gr
    import pregex.core.operators as op
    import pregex.core.quantifiers as qu
    import pregex.core.tokens as tk
    import pregex.meta.essentials as es
    from pregex.core.pre import Pregex
    out = [('pre:Pregex', Pregex, inspect.signature(Pregex.__init__))]
    for mod, tag in ((asr, 'assertions'), (cl, 'classes'), (gr, 'groups'), (op, 'operators'), (qu, 'quantifiers'),
                     (tk, 'tokens'), (es, 'essentials')):
        for name, obj in sorted(vars(mod).items()):
            if name.startswith('_') or not inspect.isclass(obj) or obj.__module__ != mod.__name__:
                continue
            out.append((f'{tag}:{name}', obj, inspect.signature(obj.__init__)))
    for m in BUILD_METHODS:
        out.append((f'method:{m}', m, inspect.signature(getattr(Pregex, m))))
    known = PATTERN_PARAMS | VAR_PATTERN_PARAMS | BOOL_PARAMS | INT_PARAMS | AFFIX_PARAMS | {
        'self', 'pattern', 'name', 'ref', 'start', 'end', 'chars', 'formats'}
    for label, _, sig in out:
        for p in sig.parameters:
            if p not in known:
                raise HarnessError(f'{label} has a parameter {p!r} that the C03 argument table does not know')
    if len(out) < 120:
        raise HarnessError(f'introspection found only {len(out)} public callables')
    _TARGETS = out
    return out


# -- encoded argument values ----------------------------------------------------------------------
def decode(v):
    k = v[0]
    if k in ('str', 'int', 'bool', 'float'):
        return v[1]
    if k == 'none':
        return None
    if k == 'bytes':
        return v[1].encode('latin-1')
    if k == 'list':
        return [decode(x) for x in v[1]]
    if k == 'obj':
        return object()
    if k == 'special_float':
        return float(v[1])
    if k == 'pre':
        return dsl.build(v[1])
    if k == 'cexpr':
        return cs.build(v[1])
    raise ValueError(v)


def show(v):
    k = v[0]
    if k in ('str', 'int', 'bool', 'float'):
        return repr(v[1])
    if k == 'none':
        return 'None'
    if k == 'bytes':
        return repr(v[1].encode('latin-1'))
    if k == 'list':
        return '[' + ', '.join(show(x) for x in v[1]) + ']'
    if k == 'obj':
        return 'object()'
    if k == 'special_float':
        return f'float({v[1]!r})'
    if k == 'pre':
        return dsl.render(v[1])
    if k == 'cexpr':
        return cs.render(v[1])
    return repr(v)


SMALL_FEATS = [f for f in dsl.ALL_FEATURES]


def s_pattern_arg(valid_only=False):
    tree = dsl.tree_strategy(SMALL_FEATS, max_leaves=3).map(lambda t: ['pre', t])
    s = dsl.literal_strategy(dsl.ALL_FEATURES, 0, 5).map(lambda x: ['str', x])
    good = st.one_of(s, s, tree, tree)
    if valid_only:
        return good
    bad = st.sampled_from([['none'], ['int', 3], ['float', 1.5], ['bytes', 'ab'], ['list', [['str', 'a']]], ['obj'], ['bool', True]])
    return st.one_of(good, good, good, good, bad)


def s_int(optional, lo_valid=0):
    good = st.one_of(st.integers(lo_valid, 5), st.integers(lo_valid, 5), st.sampled_from([0, 1, 2, 7, 12, 64]))
    bad = st.one_of(st.sampled_from([['bool', True], ['bool', False], ['float', 2.0], ['float', 1.5], ['str', '2'],
                                     ['int', -1], ['int', -7], ['list', []]]),
                    st.just(['none']) if not optional else st.just(['int', -2]))
    opts = [good.map(lambda n: ['int', n])] * 4 + [bad]
    if optional:
        opts.append(st.just(['none']))
    return st.one_of(*opts)


def s_name(required_str):
    good = st.sampled_from(['n', '_x', 'Name1', 'a_b', 'k', 'a\u00f1o', 'a\u0663', 'a_\uff11'])
    bad = st.sampled_from([['str', ''], ['str', '1a'], ['str', 'a b'], ['str', 'a-b'], ['str', 'a\n'], ['str', 'é'], ['str', 'a\xb2'], ['str', 'a\u2460'], ['str', 'x\u0301'], ['str', 'a\u200d'], ['str', 'a\ufeff'],
                           ['str', 'aé'], ['int', 1], ['float', 1.0], ['list', []], ['bool', True]])
    opts = [good.map(lambda s: ['str', s])] * 3 + [bad]
    if not required_str:
        opts.append(st.just(['none']))
    return st.one_of(*opts)


def s_ref():
    return st.one_of(st.integers(1, 99).map(lambda n: ['int', n]), st.sampled_from(['n', '_x', 'Name1']).map(lambda s: ['str', s]),
                     st.sampled_from([['int', 0], ['int', 100], ['int', -1], ['bool', True], ['float', 1.0], ['none'],
                                      ['str', ''], ['str', '1a'], ['str', 'a b'], ['str', 'é'], ['list', []]]))


def s_char_arg():
    ch = st.one_of(st.sampled_from(list('\\]^[-/$.()|?*+{}ab01 \n')), st.characters())
    good = st.one_of(ch.map(lambda c: ['str', c]),
                     st.sampled_from(sorted(cs.TOKENS)).map(lambda t: ['cexpr', ['t', t]]))
    bad = st.sampled_from([['str', 'ab'], ['str', ''], ['none'], ['int', 5], ['bytes', 'a'], ['pre', ['lit', 'ab', False]],
                           ['list', [['str', 'a']]], ['float', 1.0]])
    return st.one_of(good, good, good, good, bad)


DATE_PARTS = None


def s_formats():
    valid = []
    for d in ('dd', 'd'):
        for m in ('mm', 'm'):
            for y in ('yyyy', 'yy'):
                for sep in ('-', '/'):
                    valid += [sep.join(x) for x in ((d, m, y), (m, d, y), (y, m, d))]
    v = st.sampled_from(valid).map(lambda s: ['str', s])
    bad = st.sampled_from([['str', 'dd-mm'], ['str', 'DD/MM/YYYY'], ['str', ''], ['str', 'yyyy.mm.dd'], ['str', 'dd-mm/yyyy']])
    return st.one_of(st.just(['none']), v, st.lists(v, min_size=1, max_size=4).map(lambda x: ['list', x]), bad,
                     st.lists(st.one_of(v, bad), min_size=1, max_size=3).map(lambda x: ['list', x]))


def s_affix():
    s = dsl.literal_strategy(dsl.ALL_FEATURES, 1, 4).map(lambda x: ['str', x])
    bad = st.sampled_from([['int', 1], ['none'], ['float', 1.0], ['bytes', 'a']])
    return st.one_of(s, s, st.lists(s, min_size=1, max_size=3).map(lambda x: ['list', x]), bad,
                     st.lists(st.one_of(s, s, bad), min_size=1, max_size=3).map(lambda x: ['list', x]))


def s_range_int():
    good = st.one_of(st.integers(0, 12), st.integers(0, 1200), st.sampled_from([0, 9, 10, 99, 100, 101, 999, 1000, 2147483647]))
    bad = st.sampled_from([['int', -1], ['float', 1.5], ['str', '3'], ['none'], ['list', []]])
    return st.one_of(good.map(lambda n: ['int', n]), good.map(lambda n: ['int', n]), good.map(lambda n: ['int', n]), bad)


def arg_strategy(label, pname):
    if pname in PATTERN_PARAMS:
        return s_pattern_arg()
    if pname == 'pattern':
        return st.one_of(dsl.literal_strategy(dsl.ALL_FEATURES, 0, 6).map(lambda x: ['str', x]),
                         st.sampled_from([['none'], ['int', 1], ['bytes', 'a'], ['list', []]]))
    if pname in BOOL_PARAMS:
        return st.booleans().map(lambda b: ['bool', b])
    if pname in INT_PARAMS:
        lo = 1 if pname in ('min_chars', 'max_chars', 'min_decimal') else (2 if pname == 'base' else 0)
        return s_int(pname in OPTIONAL_INT, lo)
    if pname == 'name':
        return s_name(required_str=label.endswith('Conditional'))
    if pname == 'ref':
        return s_ref()
    if pname in ('start', 'end'):
        return s_char_arg() if label.startswith('classes:') else s_range_int()
    if pname == 'formats':
        return s_formats()
    if pname in AFFIX_PARAMS:
        return s_affix()
    raise HarnessError(f'no strategy for parameter {pname} of {label}')


@st.composite
def api_call(draw):
    ts = targets()
    i = draw(st.integers(0, len(ts) - 1))
    label, obj, sig = ts[i]
    args, kwargs = [], {}
    recv = None
    if label.startswith('method:'):
        recv = draw(dsl.tree_strategy(SMALL_FEATS, max_leaves=3))
    for pname, p in sig.parameters.items():
        if pname == 'self':
            continue
        if p.kind == inspect.Parameter.VAR_POSITIONAL:
            n = draw(st.sampled_from([0, 1, 1, 2, 2, 3]))
            item = s_char_arg() if pname == 'chars' else s_pattern_arg()
            for _ in range(n):
                args.append(draw(item))
            continue
        if p.default is not inspect.Parameter.empty and draw(st.integers(0, 2)) == 0:
            continue          # leave the default
        v = draw(arg_strategy(label, pname))
        if p.default is inspect.Parameter.empty or any(q.kind == inspect.Parameter.VAR_POSITIONAL for q in sig.parameters.values()):
            args.append(v)
        else:
            kwargs[pname] = v
    return {'mode': 'api', 'target': label, 'recv': recv, 'args': args, 'kwargs': kwargs}


def render_call(case):
    label = case['target']
    a = [show(v) for v in case['args']] + [f'{k}={show(v)}' for k, v in case['kwargs'].items()]
    if label.startswith('method:'):
        return f"{dsl.render(case['recv'])}.{label.split(':')[1]}({', '.join(a)})"
    return f"{label.split(':')[1]}({', '.join(a)})"


def is_documented(e):
    return isinstance(e, treecheck.documented_exceptions())


def check_result(p, what, texts, ctx, exempt_compile=False):
    from pregex.core.pre import Pregex
    if not isinstance(p, Pregex):
        return ('returned_non_pregex', f'{what} returned {type(p).__name__}')
    pattern = str(p)
    try:
        ra = re.compile(pattern, dsl.FLAGS)
    except re.error as e:
        if exempt_compile or 'redefinition of group name' in str(e):
            ctx.count('exempt_from_compile')
            return None
        return ('not_compilable', f'{what} returned pattern {pattern!r}: re.error {e}')
    except (RecursionError, OverflowError):
        ctx.count('re_limit')
        return None
    exp = p.get_pattern()
    if not exp.isprintable():
        return ('export_not_printable', f'{what}: get_pattern() = {exp!r}')
    try:
        rc = re.compile(exp, dsl.FLAGS)
    except re.error as e:
        return ('export_not_compilable', f'{what}: get_pattern() = {exp!r} (str: {pattern!r}): {e}')
    d = dsl.equivalent(rc, ra, texts)
    if d:
        return ('export_not_equivalent', f'{what}: get_pattern() {exp!r} vs str {pattern!r}: {d}')
    return None


def generic_texts(pattern, tseed):
    import random
    rng = random.Random(tseed)
    alphabet = sorted(set(c for c in pattern if c not in '\\()[]{}?*+|^$') | set('a1 -\n.'))
    out = ['', 'a', '1', 'ab 12\n-']
    for _ in range(8):
        out.append(''.join(rng.choice(alphabet) for _ in range(rng.randint(1, 10))))
    return out


def violation(kind, case, detail, ctx):
    fid = findings.classify(ID, kind, case)
    if fid:
        ctx.known(fid)
        return
    raise Violation(kind, case, detail)


def check_case(case, ctx):
    mode = case['mode']
    ctx.count(f'mode:{mode}')
    if mode == 'tree':
        tree = case['tree']
        if case.get('ref'):
            tree = dsl.with_reference(tree, case['ref']) or tree
        o = treecheck.evaluate(tree, case.get('tseed', 0), check_export=True)
        ctx.count(f'outcome:{o.kind.split(":")[0]}')
        if o.kind.startswith('unexpected_exception') or o.kind.startswith('export:') or o.kind == 'not_compilable' or (
                o.kind.startswith('leaf_failed') and not o.kind.split(':')[1].endswith('Exception')):
            violation(o.kind, case, f'{dsl.render(tree)}: {o.detail}', ctx)
        elif o.kind == 'unspec' and o.pattern is not None:
            # unspecified semantics, but the call returned: it must still compile and export
            bad = None
            try:
                re.compile(o.pattern, dsl.FLAGS)
            except re.error as e:
                if 'redefinition of group name' not in str(e) and 'reference does not compile' not in o.detail:
                    bad = str(e)
            except (RecursionError, OverflowError):
                pass
            if bad:
                violation('not_compilable', case, f'{dsl.render(tree)} returned {o.pattern!r}: {bad}', ctx)
        nontrivial = o.kind in ('ok', 'expected_exception', 'unspec') and dsl.size(tree) > 1
        ctx.case(case, nontrivial, sample={'expr': dsl.render(tree), 'outcome': o.kind, 'emitted': o.pattern} if nontrivial else None)
        return
    if mode == 'cls':
        what = cs.render(case['expr'])
        try:
            p = cs.build(case['expr'])
        except treecheck.documented_exceptions() as e:
            ctx.count('documented_exception:' + type(e).__name__)
            ctx.case(case, True, sample={'expr': what, 'outcome': type(e).__name__})
            return
        except BaseException as e:  # noqa: BLE001
            if type(e).__name__ == 'CaseTimeout':
                raise
            violation(f'unexpected_exception:{type(e).__name__}', case, f'{what}: {type(e).__name__}: {e}', ctx)
            ctx.case(case, False)
            return
        bad = check_result(p, what, ['a', 'b-', '\\]', '^$'], ctx)
        if bad:
            violation(bad[0], case, bad[1], ctx)
        ctx.case(case, cs.n_ops(case['expr']) >= 1, sample={'expr': what, 'emitted': str(p)})
        return
    # api
    label = case['target']
    what = render_call(case)
    obj = dict((t[0], t[1]) for t in targets())[label]
    raised = None
    p = None
    try:
        args = [decode(v) for v in case['args']]
        kwargs = {k: decode(v) for k, v in case['kwargs'].items()}
        if label.startswith('method:'):
            recv = dsl.build(case['recv'])
            p = getattr(recv, obj)(*args, **kwargs)
        else:
            p = obj(*args, **kwargs)
    except treecheck.documented_exceptions() as e:
        raised = type(e).__name__
    except BaseException as e:  # noqa: BLE001
        if type(e).__name__ == 'CaseTimeout':
            raise
        violation(f'unexpected_exception:{type(e).__name__}', case, f'{what}: {type(e).__name__}: {str(e)[:300]}', ctx)
        ctx.case(case, False)
        return
    if raised:
        ctx.count('documented_exception:' + raised)
        ctx.case(case, bool(case['args'] or case['kwargs']), sample={'call': what, 'outcome': raised})
        return
    exempt = label in ('groups:Backreference', 'groups:Conditional') or 'Backreference' in what or 'Conditional' in what
    if label == 'pre:Pregex' and case['kwargs'].get('escape') == ['bool', False]:
        # a hand-written regex is the caller's responsibility: if it is not a regex, nothing is claimed about the result
        try:
            re.compile(args[0], dsl.FLAGS)
        except Exception:  # noqa: BLE001
            exempt = True
    bad = check_result(p, what, generic_texts(str(p), 7), ctx, exempt_compile=exempt)
    if bad:
        violation(bad[0], case, bad[1], ctx)
    nontrivial = bool(case['args'] or case['kwargs']) and len(str(p)) >= 4
    ctx.case(case, nontrivial, sample={'call': what, 'emitted': str(p)} if nontrivial else None)


# -- complete grid: every public callable x every parameter x every wrong-kind value, the other arguments valid ------------
GRID_VALUES = [['none'], ['int', -1], ['int', 0], ['int', 100], ['int', 10 ** 6], ['float', 1.5], ['float', 2.0], ['bool', True], ['bool', False],
               ['str', ''], ['str', 'ab'], ['str', '1a'], ['str', 'a b'], ['str', '\\'], ['bytes', 'a'], ['list', []], ['list', [['int', 1]]],
               ['list', [['str', 'a'], ['none']]], ['list', [['str', 'a'], ['pre', ['lit', 'b', False]]]], ['list', [['str', 'a'], ['int', 1]]],
               ['special_float', 'inf'], ['special_float', '-inf'], ['special_float', 'nan'], ['obj'], ['pre', ['lit', 'ab', False]], ['pre', ['empty', 0]], ['cexpr', ['t', 'Backslash']]]


def valid_default(label, pname):
    if pname in PATTERN_PARAMS or pname == 'pattern':
        return ['str', 'a']
    if pname in BOOL_PARAMS:
        return ['bool', pname in ('escape', 'on_right', 'is_greedy')]
    if pname in INT_PARAMS:
        return ['int', {'n': 1, 'm': 3, 'n_min': 1, 'n_max': 3, 'min_chars': 1, 'max_chars': 3, 'min_decimal': 1, 'max_decimal': 3, 'base': 10}[pname]]
    if pname == 'name':
        return ['str', 'n']
    if pname == 'ref':
        return ['int', 1]
    if pname in ('start', 'end'):
        if label.startswith('classes:'):
            return ['str', 'a' if pname == 'start' else 'z']
        return ['int', 1 if pname == 'start' else 50]
    if pname == 'formats':
        return ['str', 'dd/mm/yyyy']
    if pname in AFFIX_PARAMS:
        return ['str', 'a']
    raise HarnessError(f'no default for parameter {pname} of {label}')


def grid_cases():
    for label, obj, sig in targets():
        params = [(n, p) for n, p in sig.parameters.items() if n != 'self']
        for target_name, tp in params:
            for bad in GRID_VALUES:
                args, kwargs = [], {}
                for pname, p in params:
                    if p.kind == inspect.Parameter.VAR_POSITIONAL:
                        item = ['str', 'a']
                        args.extend([bad, ['str', 'b']] if pname == target_name else [item, ['str', 'b']])
                        continue
                    v = bad if pname == target_name else valid_default(label, pname)
                    if p.default is inspect.Parameter.empty or any(q.kind == inspect.Parameter.VAR_POSITIONAL for _, q in params):
                        args.append(v)
                    else:
                        kwargs[pname] = v
                yield {'mode': 'api', 'target': label, 'recv': ['lit', 'ab', False] if label.startswith('method:') else None, 'args': args, 'kwargs': kwargs}


def cls_expr_strategy():
    from pbt.props import c07
    return c07.expr_strategy(max_leaves=4, invalid=True)


def strategy(spec, ctx):
    mode = spec['mode']
    if mode == 'tree':
        feats = dsl.swarm_features(ctx.seed, ctx.shard_index)
        return st.fixed_dictionaries({'mode': st.just('tree'), 'tree': st.one_of(*[dsl.tree_strategy(feats, max_leaves=6)] * 5, dsl.hostile_tree(5), dsl.deep_tree_strategy(feats)),
                                      'tseed': st.integers(0, 9999), 'ref': dsl.refspec_strategy(feats)})
    if mode == 'cls':
        return st.fixed_dictionaries({'mode': st.just('cls'), 'expr': cls_expr_strategy()})
    return api_call()


def shards(tier):
    quick = tier == 'quick'
    out = []
    for mode, n, ex in (('api', 7, 1000), ('tree', 5, 1200), ('cls', 3, 600)):
        for _ in range(n if quick else n * 4):
            out.append({'mode': mode, 'examples': ex if quick else ex * 6})
    out.append({'mode': 'grid'})
    return out


def run_shard(spec, ctx):
    if spec['mode'] == 'grid':
        from pbt.common import run_enumeration
        run_enumeration(ctx, grid_cases(), check_case, f'every public callable x every parameter x {len(GRID_VALUES)} wrong-kind / edge values (others valid)')
        return
    run_hypothesis(ctx, strategy(spec, ctx), check_case, spec['examples'], label=spec['mode'])

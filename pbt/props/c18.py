"""C18 - IPv4 and IPv6 patterns accept exactly the standard textual addresses.

Oracle: Python's ipaddress module (IPv4Address / IPv6Address) on candidate texts over digits / hex digits /
separators ('.' and '%' never appear in IPv6 candidates, so zone ids and embedded IPv4 are out of play).
IPv4: complete enumeration of octet strings 0..999 with 0-2 leading zeros in each of the four positions.
IPv6: (1) random 128-bit values rendered in every RFC 4291 hex-group form must match; (2) complete *shape*
grid: 0-9 groups left x '::' present/absent x 0-9 groups right, with up to two deviant groups (length 0 or 5)
and colon anomalies, several concretisations each; (3) the extensible form on the same candidates;
(4) an address glued to a further digit / separator must not be matched by the non-extensible form.
"""
import ipaddress
import itertools
import random
import re

from hypothesis import strategies as st

from pbt import dsl, findings
from pbt.common import Violation, guarded, run_hypothesis

ID = 'C18'
RULE = ('IPv4: all octet strings 0..999 with 0-2 leading zeros in each of the 4 positions (others fixed valid), 3- and 5-octet forms, '
        'generated junk. IPv6: complete shape grid (left groups 0-9) x (:: yes/no) x (right groups 0-9) x (no deviant group | one | two '
        'deviant groups of length 0 or 5) x colon anomalies (":::", leading/trailing single ":"), 3 concretisations each (quick: 1), for '
        'both is_extensible settings; plus Hypothesis: random 128-bit addresses in random RFC 4291 renderings (must match) and '
        'embedding contexts. Verdict = ipaddress module. Non-trivial = a candidate that has 6-9 groups or contains "::" or a deviant '
        'group (IPv6), or an octet >= 100 / with a leading zero (IPv4). Distinct = distinct (class, is_extensible, candidate).')
ASSUMPTIONS = ['ipaddress.IPv4Address/IPv6Address are the reference on texts without "." (v6) and "%"',
               'the language-equivalence reading of the property (automaton) is not attempted: a complete shape grid is enumerated instead',
               'IPv4 is only tested for adjacency to digits and dots, IPv6 to digits and colons (the guards the docs describe)']

HEX = '0123456789abcdefABCDEF'


def v4_ok(t):
    try:
        ipaddress.IPv4Address(t)
        return t.isascii()
    except ValueError:
        return False


def v6_ok(t):
    if '.' in t or '%' in t or not t.isascii():
        return False
    try:
        ipaddress.IPv6Address(t)
        return True
    except ValueError:
        return False


_PAT = {}


def pats(kind, ext):
    """ext: False / True, 'default' (argument omitted), or 0 / 1 (ints that equal the documented bool values)."""
    key = (kind, repr(ext))
    if key not in _PAT:
        import pregex.meta.essentials as es
        p = getattr(es, kind)() if ext == 'default' else getattr(es, kind)(is_extensible=ext)
        _PAT[key] = (p, re.compile(str(p), dsl.FLAGS))
    return _PAT[key]


def treecheck_documented():
    from pbt import treecheck
    return treecheck.documented_exceptions()


def violation(kind, case, detail, ctx):
    fid = findings.classify(ID, kind, case)
    if fid:
        ctx.known(fid)
        return
    raise Violation(kind, case, detail)


def check_exact(kind, ext, t, ctx, sample_method=False):
    p, rx = pats(kind, ext)
    want = v4_ok(t) if kind == 'IPv4' else v6_ok(t)
    got = rx.fullmatch(t) is not None
    if got != want or (sample_method and p.is_exact_match(t) != want):
        violation(f'verdict:{kind}', {'mode': 'exact', 'kind': kind, 'ext': ext, 'text': t}, f'{kind}(is_extensible={ext}) on {t!r}: '
                  f'exact match is {got}, ipaddress says {want}', ctx)
    return want


def check_case(case, ctx):
    mode = case['mode']
    if mode == 'exact':
        want = check_exact(case['kind'], case['ext'], case['text'], ctx, True)
        ctx.case(case, True, sample={'class': case['kind'], 'candidate': case['text'], 'valid': want})
        return
    if mode == 'render':
        t = render_v6(case['value'], case['rseed'])
        for ext in (False, True):
            check_exact('IPv6', ext, t, ctx, True)
        if not v6_ok(t):
            raise AssertionError(f'renderer produced an invalid address {t!r}')
        ctx.case(case, True, sample={'class': 'IPv6', 'candidate': t, 'valid': True}, key=t)
        return
    if mode == 'embed':
        kind, addr, pre, suf = case['kind'], case['addr'], case['pre'], case['suf']
        ok = v4_ok(addr) if kind == 'IPv4' else v6_ok(addr)
        if not ok:
            ctx.case(case, False)
            return
        flag = case.get('flag', False)
        try:
            p, rx = pats(kind, flag)
        except treecheck_documented() as ex:
            if flag == 0 and flag is not False:       # an int where a bool is documented: rejecting it is within the docs
                ctx.count('int_flag_rejected')
                ctx.case(case, False)
                return
            raise
        ctx.count(f'embed_flag:{flag!r}')
        text = pre + addr + suf
        call = f'{kind}()' if flag == 'default' else f'{kind}(is_extensible={flag!r})'
        glue = '0123456789.' if kind == 'IPv4' else '0123456789:'
        got = p.get_matches_and_pos(text)
        for (g, s, e) in got:
            if (s > 0 and text[s - 1] in glue) or (e < len(text) and text[e] in glue):
                violation(f'glued:{kind}', case, f'{call} matched {g!r} at ({s},{e}) in {text!r} although it is glued to {text[s-1:s]!r}/{text[e:e+1]!r}', ctx)
        free_l = pre == '' or pre[-1] in ' ,;()x'
        free_r = suf == '' or suf[0] in ' ,;()x'
        if kind == 'IPv6':
            free_l = pre == '' or pre[-1] in ' ,;()'
            free_r = suf == '' or suf[0] in ' ,;()'
        if free_l and free_r and (addr, len(pre), len(pre) + len(addr)) not in got:
            violation(f'standalone_missed:{kind}', case, f'{call} did not match the standalone address {addr!r} in {text!r}: {got!r}', ctx)
        ctx.case(case, True, sample={'class': kind, 'text': text, 'matches': [g for g, _, _ in got]})
        return
    raise ValueError(mode)


# -- IPv4 enumeration --------------------------------------------------------------------------------
def v4_candidates():
    octs = []
    for n in range(1000):
        for z in range(3):
            octs.append('0' * z + str(n))
    base = ['10', '0', '255', '199']
    for pos in range(4):
        for o in octs:
            fs = list(base)
            fs[pos] = o
            yield '.'.join(fs)
    for t in ['1.2.3', '1.2.3.4.5', '1.2.3.', '.1.2.3', '1..2.3', '1.2.3.4 ', ' 1.2.3.4', '1,2,3,4', '', '1.2.3.a',
              '256.256.256.256', '0.0.0.0', '255.255.255.255', '1.2.3.4\n', '1:2:3:4', '00.0.0.0', '1.2.3.-4', '+1.2.3.4']:
        yield t


# -- IPv6 shape grid -----------------------------------------------------------------------------------
def group(rng, length):
    return ''.join(rng.choice(HEX) for _ in range(length))


def v6_shapes(concretisations, rng):
    for L in range(10):
        for dc in (False, True):
            for R in range(10):
                if not dc and R:
                    continue        # without '::' there is only one group list
                n = L + R
                devsets = [()]
                devsets += [((i, d),) for i in range(n) for d in (0, 5)]
                pairs = list(itertools.combinations(range(n), 2))
                if len(pairs) > 12:
                    pairs = rng.sample(pairs, 12)
                devsets += [((i, a), (j, b)) for (i, j) in pairs for a in (0, 5) for b in (0, 5)]
                for devs in devsets:
                    for anomaly in ('', '', 'triple', 'lead', 'trail') if not devs else ('',):
                        for _ in range(concretisations):
                            lens = [rng.choice((1, 2, 3, 4, 4)) for _ in range(n)]
                            for (i, d) in devs:
                                lens[i] = d
                            gs = [group(rng, k) for k in lens]
                            left, right = ':'.join(gs[:L]), ':'.join(gs[L:])
                            t = left + ('::' if dc else '') + right
                            if anomaly == 'triple':
                                if not dc:
                                    continue
                                t = left + ':::' + right
                            elif anomaly == 'lead':
                                t = ':' + t
                            elif anomaly == 'trail':
                                t = t + ':'
                            yield t, (L, dc, R, len(devs), anomaly)


def render_v6(value, rseed):
    """Render a 128-bit value in a random RFC 4291 hex-group form."""
    rng = random.Random(rseed)
    gs = [(value >> (16 * (7 - i))) & 0xFFFF for i in range(8)]
    strs = []
    for g in gs:
        s = f'{g:x}'
        mode = rng.randrange(3)
        if mode == 1:
            s = s.zfill(rng.randint(len(s), 4))
        elif mode == 2:
            s = s.zfill(4)
        if rng.random() < 0.5:
            s = s.upper()
        strs.append(s)
    runs = []
    i = 0
    while i < 8:
        if gs[i] == 0:
            j = i
            while j < 8 and gs[j] == 0:
                j += 1
            for a in range(i, j):
                for b in range(a + 1, j + 1):
                    runs.append((a, b))
            i = j
        else:
            i += 1
    if runs and rng.random() < 0.8:
        a, b = rng.choice(runs)
        return ':'.join(strs[:a]) + '::' + ':'.join(strs[b:])
    return ':'.join(strs)


def shards(tier):
    quick = tier == 'quick'
    out = [{'mode': 'v4'}]
    for i in range(6 if quick else 24):
        out.append({'mode': 'v6grid', 'conc': 1 if quick else 3, 'salt': i})
    for _ in range(3 if quick else 12):
        out.append({'mode': 'render', 'examples': 1500 if quick else 10000})
    for _ in range(3 if quick else 12):
        out.append({'mode': 'embed', 'examples': 600 if quick else 5000})
    return out


def run_shard(spec, ctx):
    mode = spec['mode']
    if mode == 'v4':
        n = 0
        for t in v4_candidates():
            for ext in (False, True):
                n += 1
                res = []
                if not guarded(ctx, {'mode': 'exact', 'kind': 'IPv4', 'ext': ext, 'text': t},
                               lambda: res.append(check_exact('IPv4', ext, t, ctx, n % 53 == 0))):
                    continue
                want = res[0]
                o = t.split('.')
                nt = any(len(x) >= 3 or (len(x) > 1 and x[0] == '0') for x in o)
                ctx.case(['IPv4', ext, t], nt, sample={'class': 'IPv4', 'candidate': t, 'valid': want} if nt and n % 211 == 0 else None)
        ctx.exhaustive['IPv4 octet strings 0..999 x 0-2 leading zeros x 4 positions x is_extensible'] = n
    elif mode == 'v6grid':
        rng = random.Random(ctx.seed * 7919 + spec['salt'])
        n = 0
        for t, shape in v6_shapes(spec['conc'], rng):
            for ext in (False, True):
                n += 1
                res = []
                if not guarded(ctx, {'mode': 'exact', 'kind': 'IPv6', 'ext': ext, 'text': t},
                               lambda: res.append(check_exact('IPv6', ext, t, ctx, n % 53 == 0))):
                    continue
                want = res[0]
                L, dc, R, nd, an = shape
                nt = dc or nd > 0 or 6 <= L + R <= 9
                ctx.case(['IPv6', ext, t], nt, sample={'class': 'IPv6', 'candidate': t, 'valid': want, 'shape': list(shape)} if nt and n % 97 == 0 else None)
        ctx.exhaustive['IPv6 shape grid (L 0-9, ::, R 0-9, <=2 deviant groups, colon anomalies) x concretisations x is_extensible'] = n
    elif mode == 'render':
        strat = st.fixed_dictionaries({'mode': st.just('render'),
                                       'value': st.one_of(st.integers(0, 2 ** 128 - 1),
                                                          st.lists(st.sampled_from([0, 0, 0, 1, 0xFFFF, 0xAB, 0x1000]), min_size=8, max_size=8).map(
                                                              lambda gs: sum(g << (16 * (7 - i)) for i, g in enumerate(gs)))),
                                       'rseed': st.integers(0, 2 ** 16)})
        run_hypothesis(ctx, strat, check_case, spec['examples'], label='render')
    else:
        v4 = st.lists(st.integers(0, 260), min_size=4, max_size=4).map(lambda xs: '.'.join(map(str, xs)))
        v6 = st.one_of(st.tuples(st.integers(0, 2 ** 128 - 1), st.integers(0, 999)),
                       st.tuples(st.lists(st.sampled_from([0, 0, 0, 1, 0xFFFF, 0xAB]), min_size=8, max_size=8).map(
                           lambda gs: sum(g << (16 * (7 - i)) for i, g in enumerate(gs))), st.integers(0, 999))).map(lambda t: render_v6(t[0], t[1]))
        ctxs = st.sampled_from(['', ' ', '0', '00', '1', '9', '5', '.', ':', 'x', ',', '(', ')', ' 1', ' 0', '. ', ': ', 'a:', '::', '1.', '0.', 'x ', ';', 'f', 'F'])
        flags = st.sampled_from([False, False, 'default', 'default', 0])
        strat = st.one_of(
            st.fixed_dictionaries({'mode': st.just('embed'), 'kind': st.just('IPv4'), 'addr': v4, 'pre': ctxs, 'suf': ctxs, 'flag': flags}),
            st.fixed_dictionaries({'mode': st.just('embed'), 'kind': st.just('IPv6'), 'addr': v6, 'pre': ctxs, 'suf': ctxs, 'flag': flags}))
        run_hypothesis(ctx, strat, check_case, spec['examples'], label='embed')

"""C07 - class union, subtraction and negation are exact set algebra.

Oracle: model value = (polarity, interval set between the brackets). Leaves contribute the set that
their own emitted text is *measured* to match (whole-range scan), so only the algebra is under test:
regular classes combine matched sets, negated classes combine excluded sets, ~ complements, str/token
operands act as singletons; exceptions exactly when the documentation says so. Results are compared by
scanning all code points. A|B vs B|A and ~~A are asserted directly. Every shard has its own hash seed.
"""
from hypothesis import strategies as st

from pbt import charsets as cs
from pbt import findings, treecheck
from pbt.common import Violation, run_hypothesis
from pbt.props import c06

ID = 'C07'
RULE = ('Hypothesis: class-expression trees (<= 6 leaves) over |, -, ~ with constructor leaves as in C06 (valid arguments; also AnyFrom with 8-100 members of realistic alphabets), '
        'named classes, Any, AnyWordChar(is_global), str/token operands on either side, mixed polarities, and range end-points '
        'drawn near each other so that ranges overlap / touch / nest. Result membership is decided over all 1,114,112 code points. '
        'Non-trivial = >= 2 operators and some pair of operand sets overlaps or is adjacent. Distinct = distinct serialised expression.')
ASSUMPTIONS = ['leaf sets are measured from the leaf\'s own emitted text (C06 checks the constructors)',
               'Unicode-only members of \\d \\s \\w are masked when a leaf is documented through a shorthand or the result text uses one',
               'a leaf whose own text is not a valid character set is skipped here (C06 owns it)']

_LEAF_CACHE = {}


class LeafBroken(Exception):
    pass


def leaf_set(e, negated):
    key = repr(e)
    if key not in _LEAF_CACHE:
        try:
            p = cs.build(e)
            got = cs.scan(str(p))
            _LEAF_CACHE[key] = (cs.complement(got) if negated else got, cs.shorthand_kinds(str(p)))
        except cs.NotACharSet as ex:
            _LEAF_CACHE[key] = LeafBroken(f'{cs.render(e)} -> {ex}')
        except treecheck.documented_exceptions():
            raise
        except BaseException as ex:  # noqa: BLE001
            if type(ex).__name__ == 'CaseTimeout':
                raise
            _LEAF_CACHE[key] = LeafBroken(f'{cs.render(e)} raised {type(ex).__name__}')
    v = _LEAF_CACHE[key]
    if isinstance(v, LeafBroken):
        raise v
    return v


# -- strategies -----------------------------------------------------------------------------------
BASES = list('\\]^[-/$.()|?*+{}azAZ09_ ~!') + ['\x00', '\x7f', 'é', 'é', 'Ā', '٣', 'Ω', 'א', '한', '\ud7ff', '\ue000', '\uffff', '\U00010000', '\U0001F600', '\U0010fff0', '\U0010ffff', '\U0010ffff']


def near_range(bases=BASES):
    """Ranges whose end-points are drawn close to a small set of bases, so that they overlap / touch / nest."""
    def mk(t):
        base, off, ln, anchored = t
        if anchored:      # end-point exactly at the base (ranges that end at U+10FFFF / start at U+0000 / touch a block edge)
            hi = ord(base) if ord(base) > 0 else ln
            lo = max(0, hi - ln)
            return (chr(lo), chr(hi))
        lo = max(0, min(0x10FFFE, ord(base) + off))
        hi = min(0x10FFFF, lo + ln)
        return (chr(lo), chr(hi))
    return st.tuples(st.sampled_from(bases), st.integers(-4, 4), st.one_of(st.integers(1, 12), st.integers(1, 12), st.integers(13, 3000)),
                     st.sampled_from([False, False, True])).map(mk)


def near_char(bases=BASES):
    return st.tuples(st.sampled_from(bases), st.integers(-3, 3)).map(lambda t: chr(max(0, min(0x10FFFF, ord(t[0]) + t[1]))))


def leaf_strategy(invalid=False, bases=BASES):
    ch = st.one_of(near_char(bases), near_char(bases), c06.char_st())
    arg = st.one_of(ch.map(lambda c: ['c', c]), ch.map(lambda c: ['c', c]), st.sampled_from(sorted(cs.TOKENS)).map(lambda t: ['t', t]))
    frm = st.lists(arg, min_size=1, max_size=5)
    rng = near_range(bases)
    named = st.sampled_from(['Any', 'AnyLetter', 'AnyButLetter', 'AnyLowercaseLetter', 'AnyButLowercaseLetter', 'AnyUppercaseLetter',
                             'AnyButUppercaseLetter', 'AnyDigit', 'AnyButDigit', 'AnyPunctuation', 'AnyButPunctuation',
                             'AnyWhitespace', 'AnyButWhitespace', 'AnyGermanLetter', 'AnyButGermanLetter', 'AnyGreekLetter',
                             'AnyHebrewLetter', 'AnyKoreanLetter', 'AnyCyrillicLetter', 'AnyCJK', 'AnyButCJK'])
    import string
    pools = [string.punctuation, string.printable, string.ascii_letters + string.digits + '-._', ''.join(chr(c) for c in range(0x20, 0x7f)),
             ''.join(chr(c) for c in range(0xA0, 0x180)), string.ascii_letters[::2] + string.digits[::2] + string.punctuation[::2]]
    big = st.tuples(st.sampled_from(pools), st.integers(0, 2 ** 30), st.integers(8, 100), st.booleans()).map(c06._big_args)
    opts = [
        big.map(lambda xs: ['from', xs]), big.map(lambda xs: ['butfrom', xs]),
        frm.map(lambda xs: ['from', xs]), frm.map(lambda xs: ['from', xs]), frm.map(lambda xs: ['butfrom', xs]),
        rng.map(lambda p: ['between', ['c', p[0]], ['c', p[1]]]), rng.map(lambda p: ['between', ['c', p[0]], ['c', p[1]]]),
        rng.map(lambda p: ['butbetween', ['c', p[0]], ['c', p[1]]]),
        named.map(lambda n: ['named', n]), named.map(lambda n: ['named', n]),
        st.booleans().map(lambda g: ['word', g]), st.booleans().map(lambda g: ['butword', g]),
    ]
    if invalid:
        opts.append(c06.ctor_strategy(invalid=True))
    return st.one_of(*opts)


def expr_strategy(max_leaves=6, invalid=False):
    """Half of the expressions draw all their ranges/characters around ONE base code point (so that operands overlap,
    touch and nest, also above U+007F); the other half mix bases."""
    clustered = st.sampled_from(BASES).flatmap(lambda b: _expr_strategy(max_leaves, invalid, [b]))
    edges = st.sampled_from(['\x00', '\x7f', '\uffff', '\U0010ffff', '\U0010ffff']).flatmap(lambda b: _expr_strategy(max_leaves, invalid, [b]))
    return st.one_of(clustered, clustered, _expr_strategy(max_leaves, invalid, BASES), _expr_strategy(max_leaves, invalid, BASES), edges)


def _expr_strategy(max_leaves, invalid, bases):
    leaf = leaf_strategy(invalid, bases)
    ch = st.one_of(near_char(bases), near_char(bases), c06.char_st())
    scalar = st.one_of(ch.map(lambda c: ['c', c]), ch.map(lambda c: ['c', c]),
                       st.sampled_from(sorted(cs.TOKENS)).map(lambda t: ['t', t]))
    if invalid:
        scalar = st.one_of(scalar, scalar, scalar, st.sampled_from([['s', 'ab'], ['s', ''], ['p', 'ab'], ['p', 'a']]))

    def extend(child):
        return st.one_of(
            st.tuples(st.sampled_from(['or', 'or', 'sub']), child, child).map(lambda t: [t[0], t[1], t[2]]),
            st.tuples(st.sampled_from(['or', 'sub']), child, scalar).map(lambda t: [t[0], t[1], t[2]]),
            st.tuples(st.sampled_from(['or', 'sub']), scalar, child).map(lambda t: [t[0], t[1], t[2]]),
            child.map(lambda c: ['inv', c]),
        )
    return st.recursive(leaf, extend, max_leaves=max_leaves)


# -- check ----------------------------------------------------------------------------------------
def violation(kind, e, detail, ctx):
    fid = findings.classify(ID, kind, {'expr': e})
    if fid:
        ctx.known(fid)
        return kind
    raise Violation(kind, {'expr': e}, f'{cs.render(e)}: {detail}')


def evaluate(e, ctx):
    expect, unspec, val = None, False, None
    try:
        val = cs.model(e, leaf_set)
    except cs.Raises as r:
        expect = r
    except cs.Unspecified:
        unspec = True
    except LeafBroken:
        return 'leaf_broken', None
    except treecheck.documented_exceptions():
        return 'leaf_raised', None
    try:
        p = cs.build(e)
    except treecheck.documented_exceptions() as ex:
        name = type(ex).__name__
        if unspec or (expect is not None and name in expect.names):
            return 'expected_exception', None
        return violation('wrong_exception', e, f'raised {name}: {str(ex)[:200]}; model: {expect or "a class"}', ctx), None
    except BaseException as ex:  # noqa: BLE001
        if type(ex).__name__ == 'CaseTimeout':
            raise
        return violation(f'unexpected_exception:{type(ex).__name__}', e, f'{type(ex).__name__}: {str(ex)[:200]}', ctx), None
    if unspec:
        return 'unspec', None
    text = str(p)
    if expect is not None:
        return violation('missing_exception', e, f'model: {"/".join(expect.names)} ({expect}); got pattern {text!r}', ctx), None
    try:
        d = cs.compare(e, text, val)
    except cs.NotACharSet as ex:
        return violation('not_a_charset', e, f'emitted {text!r} does not denote a character set: {ex}', ctx), None
    if d:
        return violation('wrong_set', e, d, ctx), None
    return 'ok', val


def overlap_or_touch(e):
    """Some operator has two operands whose (model) sets overlap or are adjacent."""
    def sets(x):
        if x[0] in ('c', 't'):
            return cs.from_chars(cs._operand_char(x))
        try:
            return cs.model(x, leaf_set).inner
        except Exception:
            return None
    found = False

    def go(x):
        nonlocal found
        if x[0] in ('or', 'sub'):
            a, b = sets(x[1]), sets(x[2])
            if a is not None and b is not None:
                grown = tuple((max(0, lo - 1), min(cs.MAXCP, hi + 1)) for lo, hi in a)
                if cs.intersect(cs.norm(grown), b):
                    found = True
            go(x[1])
            go(x[2])
        elif x[0] == 'inv':
            go(x[1])
    go(e)
    return found


def probe(obj):
    """What a class object shows of itself and does as an operand (class objects are values: section C20 / C07 'the result never
    depends on ... history')."""
    out = [str(obj)]
    for f in (lambda: obj | obj, lambda: ~obj, lambda: ~(~obj)):
        try:
            out.append(str(f()))
        except Exception as ex:  # noqa: BLE001
            if type(ex).__name__ == 'CaseTimeout':
                raise
            out.append(type(ex).__name__)
    if hasattr(obj, '_get_verbose_pattern'):
        out.append(obj._get_verbose_pattern())
    return out


def operands_unchanged(e, ctx):
    """Evaluate the expression over *shared* leaf objects (equal leaves are one object, as when a user keeps a class in a
    variable); afterwards every leaf object must still show and do what a freshly built one does."""
    import json
    cache = {}

    def b(x):
        k = x[0]
        if k == 'inv':
            return ~b(x[1])
        if k == 'or':
            return b(x[1]) | b(x[2])
        if k == 'sub':
            return b(x[1]) - b(x[2])
        if k in ('c', 's', 'bad'):
            return cs.build(x)
        key = json.dumps(x)
        if key not in cache:
            cache[key] = cs.build(x)
        return cache[key]
    try:
        b(e)
    except Exception as ex:  # noqa: BLE001 - the outcome itself is judged by evaluate(); here only the operands matter
        if type(ex).__name__ == 'CaseTimeout':
            raise
    for key, obj in cache.items():
        leaf = json.loads(key)
        try:
            fresh = cs.build(leaf)
        except Exception:  # noqa: BLE001
            continue
        if isinstance(obj, str) or not hasattr(obj, 'get_matches'):
            continue
        got, want = probe(obj), probe(fresh)
        if got != want:
            violation('operand_changed', e, f'after evaluating the expression over shared leaf objects, the leaf {cs.render(leaf)} shows / does '
                      f'{got!r}; a freshly built one {want!r} (str, x|x, ~x, ~~x, verbose)', ctx)
    ctx.count('operand_immutability_checked')


def check_case(case, ctx):
    e = case['expr']
    r, val = evaluate(e, ctx)
    ctx.count(f'outcome:{r}')
    if r == 'ok':
        # direct algebraic laws on the real objects: commutativity of |, and double negation
        if e[0] == 'or':
            r2, _ = evaluate(['or', e[2], e[1]], ctx)
            if r2 not in ('ok',):
                violation('order_dependent', e, f'A | B is fine but B | A gives {r2}', ctx)
        if not val.is_any:
            r3, _ = evaluate(['inv', ['inv', e]], ctx)
            if r3 != 'ok':
                violation('double_negation', e, f'~~A gives {r3}', ctx)
    if r in ('ok', 'expected_exception'):
        operands_unchanged(e, ctx)
    nops = cs.n_ops(e)
    nt = nops >= 2 and r in ('ok', 'expected_exception') and overlap_or_touch(e)
    if nops >= 2:
        ctx.count('ops>=2')
    ctx.case(case, nt, sample={'expr': cs.render(e), 'outcome': r} if nt else None)


def edge_cases():
    """Complete small grid at both ends of the code space: every pair of ranges / characters next to U+0000 and U+10FFFF
    under | and - in both orders, and their negations (off-by-one arithmetic on end-points has nowhere to hide here)."""
    M = cs.MAXCP
    items = []
    for (a, b) in ((M - 3, M), (M - 1, M), (M - 6, M - 2), (M - 9, M - 7), (M - 2, M - 1), (0, 2), (0, 1), (1, 4), (3, 6), (5, 6)):
        items.append(['between', ['c', chr(a)], ['c', chr(b)]])
    # whole planes and half planes: ranges whose end-points are the conventional boundaries (U+007F/80, U+00FF/100, U+7FFF/8000,
    # U+D7FF/E000, U+FFFF/10000), which "simplifications" to '.', \w ... like to assume are the ends of the world
    for (a, b) in ((0, 0x7f), (0x80, 0xff), (0, 0xff), (0x100, 0x7fff), (0, 0x7fff), (0x8000, 0xffff), (0, 0xffff), (0x10000, M), (0, 0xd7ff), (0xe000, 0xffff),
                   (1, 0xffff), (0, 0xfffe), (0, M)):
        items.append(['between', ['c', chr(a)], ['c', chr(b)]])
    for c in (M, M - 1, M - 4, 0, 1, 3):
        items.append(['from', [['c', chr(c)]]])
    items.append(['from', [['c', chr(M)], ['c', chr(M - 2)], ['c', chr(0)]]])
    for x in items:
        for y in items:
            for op in ('or', 'sub'):
                yield {'expr': [op, x, y]}
                yield {'expr': [op, ['inv', x], ['inv', y]]}
        yield {'expr': ['inv', ['inv', x]]}


def shards(tier):
    n = 11 if tier == 'quick' else 59
    return [{'examples': 500 if tier == 'quick' else 3000} for _ in range(n)] + [{'mode': 'edges', 'part': k, 'parts': 5} for k in range(5)]


def run_shard(spec, ctx):
    if spec.get('mode') == 'edges':
        from pbt.common import run_enumeration
        run_enumeration(ctx, (c for k, c in enumerate(edge_cases()) if k % spec.get('parts', 1) == spec.get('part', 0)), check_case,
                        'pairs of ranges/characters adjacent to U+0000 / U+10FFFF and whole (half) planes under | and -, both orders, both polarities (part)')
        return
    run_hypothesis(ctx, st.fixed_dictionaries({'expr': expr_strategy()}), check_case, spec['examples'])

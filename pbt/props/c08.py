"""C08 - capturing-group structure is exactly what the expression spells out.

Oracle: re.compile(str(p)).groups / .groupindex equal the model's capture list (value-level: Capture of a
capture adds none / renames only the outermost, Capture(Group(p)) converts, Group(Capture(p)) un-captures,
flagged groups are wrapped, re-grouping resets the flag) and the pattern matches like the reference incl.
m.groups(), with is_case_insensitive affecting exactly that group's content.
"""
from hypothesis import strategies as st

from pbt import dsl, findings, treecheck
from pbt.common import Violation, run_hypothesis

ID = 'C08'
RULE = ('Hypothesis: expression trees biased to nested Capture/Group (named, unnamed, case-insensitive, class and method '
        'spelling) around lookarounds, alternations, quantifiers and literals that contain "(", ")", "?:", "?P<", "(?i:"; '
        'group names unique per tree. Non-trivial = group-node nesting depth >= 2 or a conversion (Capture of Group/Capture, '
        'Group of Capture/Group) is present, and >= 1 text has a reference match. Distinct = distinct serialised (tree, text seed).')
ASSUMPTIONS = ['value-level reading of "is a group": identity wrappers (Concat of one operand, Exactly 1, empties) do not hide a group',
               'group names with non-ASCII word characters and duplicate names are unspecified']
OWNED = ('diff:groups', 'diff:match', 'not_compilable')

GROUPY = ['(', ')', '(?:', '(?P<n>', '(?i:', '?:', '?P<', '(a)', ')(', '(?P<n>a)', '(?:a)', '(?i:a)', '\\(', 'a', 'b', 'ab', 'A',
          '\n', 'a\n', '\n(', 'k:\n', '\r\n', '^', '$', '>', '<n>', 'a>']        # line breaks / anchors-as-text right in front of a following group


def leaf():
    lit = st.one_of(st.sampled_from(GROUPY), st.sampled_from(GROUPY), dsl.literal_strategy(dsl.ALL_FEATURES, 1, 4))
    lits = st.tuples(lit, st.booleans()).map(lambda t: ['lit', t[0], t[1]])
    cls = st.sampled_from([['cls', ['named', 'AnyLetter']], ['cls', ['from', [['c', '('], ['c', ')']]]],
                           ['cls', ['named', 'AnyDigit']], ['cls', ['from', [['c', 'a']]]]])
    # classes whose text holds unbalanced parentheses / brackets / '|' next to a raw newline or other whitespace: what the
    # library's own text-based group detection has to see through
    return st.one_of(lits, lits, lits, cls, dsl.bracket_heavy_leaf(['meta']), st.just(['empty', 0]))


def conversions(tree):
    n, depth_max = 0, 0

    def go(node, d):
        nonlocal n, depth_max
        if node[0] in ('grp', 'cap'):
            d += 1
            depth_max = max(depth_max, d)
            if node[2][0] in ('grp', 'cap'):
                n += 1
        for c in dsl.children(node):
            go(c, d)
    go(tree, 0)
    return n, depth_max


def check_case(case, ctx):
    tree, tseed = case['tree'], case.get('tseed', 0)
    if case.get('ref'):
        tree = dsl.with_reference(tree, case['ref']) or tree
        if tree is not case['tree']:
            ctx.count('with_backreference_or_conditional')
    o = treecheck.evaluate(tree, tseed, extra_texts=case.get('xt', ()))
    ctx.count(f'outcome:{o.kind.split(":")[0]}')
    if o.kind in OWNED:
        fid = findings.classify(ID, o.kind, case)
        if fid:
            ctx.known(fid)
        else:
            raise Violation(o.kind, case, f'{dsl.render(tree)}: {o.detail}')
    conv, depth = conversions(tree)
    if conv:
        ctx.count('has_conversion')
    if depth >= 2:
        ctx.count('group_depth>=2')
    nontrivial = o.kind == 'ok' and (conv > 0 or depth >= 2) and o.matched
    ctx.case(case, nontrivial, sample={'expr': dsl.render(tree), 'emitted': o.pattern, 'reference': o.ref} if nontrivial else None)


def chain_strategy(depth=2):
    """Chains of 2-4 group/capture wrappers (flags, names, identity wrappers in between) around a concatenation
    whose items may be such chains themselves: targets the conversion rules directly."""
    item = leaf()
    if depth > 0:
        item = st.one_of(item, item, st.deferred(lambda: chain_strategy(depth - 1)))
    sp = st.sampled_from(['class', 'method'])
    core = st.lists(item, min_size=1, max_size=3).flatmap(
        lambda xs: st.just(xs[0]) if len(xs) == 1 else st.sampled_from(['class', 'method', 'op']).map(lambda s: ['cat', s, xs]))
    wrapper = st.one_of(
        st.tuples(st.just('grp'), sp, st.booleans()), st.tuples(st.just('grp'), sp, st.booleans()),
        st.tuples(st.just('cap'), sp, st.one_of(st.none(), st.sampled_from(dsl.NAMES))),
        st.tuples(st.just('cap'), sp, st.one_of(st.none(), st.sampled_from(dsl.NAMES))),
        st.tuples(st.just('id'), st.sampled_from(['cat1', 'q1', 'empty_r']), st.none()),
    )

    def apply(t):
        x, ws = t
        for (k, a, b) in ws:
            if k == 'grp':
                x = ['grp', a, x, b]
            elif k == 'cap':
                x = ['cap', a, x, b]
            elif a == 'cat1':
                x = ['cat', 'class', [x]]
            elif a == 'q1':
                x = ['q', 'exactly', 'class', x, 1, None, True]
            else:
                x = ['cat', 'method', [x, ['empty', 0]]]
        return x
    return st.tuples(core, st.lists(wrapper, min_size=2, max_size=4)).map(apply)


def strategy(spec, ctx):
    feats = ['grp', 'cap', 'grp', 'cap', 'cat', 'alt', 'q', 'look', 'enc', 'strarg', 'meta']
    if ctx.shard_index % 2:
        feats = ['grp', 'cap', 'cat', 'alt', 'strarg', 'meta']
    return st.fixed_dictionaries({
        'tree': st.one_of(*[dsl.tree_strategy(feats, max_leaves=spec.get('max_leaves', 5), leaf=leaf())] * 4,
                          *[chain_strategy().map(dsl.uniquify_names)] * 4, dsl.deep_tree_strategy(feats, leaf=leaf())),
        'tseed': st.integers(0, 2 ** 16),
        'ref': dsl.refspec_strategy(['cat', 'alt', 'q', 'grp', 'meta', 'strarg']),
    })


def conversion_grid():
    """Every group conversion (Group / flagged Group / Capture / named Capture) applied to every kind of group that holds another
    group, with a hostile separator text next to the inner group (nothing, a letter, raw line breaks, parentheses, '>', anchors as
    text): the conversion rewrites the *outermost* opener only, whatever the text in between looks like."""
    def g(kind, x, name):
        if kind == 'capn':
            return ['cap', 'class', x, name]
        if kind == 'cap':
            return ['cap', 'method', x, None]
        if kind == 'grp':
            return ['grp', 'method', x, False]
        return ['grp', 'class', x, True]
    kinds = ['capn', 'cap', 'grp', 'grp_ci']
    seps = ['', 'x', '\n', 'k:\n', '\r\n', '(', ')', '>', '^', '$', '\\', '|']
    y = ['lit', 'v', True]
    for inner in kinds:
        for sep in seps:
            for outer in kinds:
                for top in kinds:
                    for before in (True, False):
                        lit = ['lit', sep, True]
                        body = [lit, g(inner, y, 'a')] if before else [g(inner, y, 'a'), lit]
                        if sep == '':
                            body = [g(inner, y, 'a'), ['lit', 'w', True]] if before else [g(inner, y, 'a')]
                        yield {'tree': g(top, g(outer, ['cat', 'class', body], 'b'), 'c'), 'tseed': 3}


def shards(tier):
    n = 15 if tier == 'quick' else 63
    return [{'examples': 1500 if tier == 'quick' else 8000, 'max_leaves': 4 + (i % 3)} for i in range(n)] + [{'mode': 'manycaps'}]


def run_shard(spec, ctx):
    if spec.get('mode') == 'manycaps':
        from pbt.common import run_enumeration
        from pbt.props.c02 import manycaps_cases
        run_enumeration(ctx, manycaps_cases(), check_case, '10-13 capturing groups x two-digit backreference x digit-leading literal x spelling')
        run_enumeration(ctx, conversion_grid(), check_case, '4 conversions x 4 outer groups x 4 inner groups x 12 separator texts x 2 positions')
        return
    run_hypothesis(ctx, strategy(spec, ctx), check_case, spec['examples'])

"""One shard of one property, in its own process (so that PYTHONHASHSEED can differ per shard).

usage: worker.py <prop> <tier> <seed> <shard_index> <out.json>     (spec read from stdin as JSON)
"""
import importlib
import json
import os
import sys
import traceback

sys.path.insert(0, os.path.dirname(os.path.dirname(os.path.abspath(__file__))))

from pbt.common import Ctx, HarnessError, import_pregex  # noqa: E402


def main():
    prop, tier, seed, shard_index, out = sys.argv[1:6]
    spec = json.loads(sys.stdin.read() or '{}')
    hash_seed = os.environ.get('PYTHONHASHSEED', 'random')
    ctx = Ctx(prop, tier, int(seed), int(shard_index), hash_seed, spec)
    status = {'ok': True}
    cov = None
    if os.environ.get('VERIF_COVERAGE_DIR'):      # development aid only (tools/coverage_report.py); never set by a registered command
        import coverage
        from pbt.common import REPO_SRC
        cov = coverage.Coverage(data_file=os.path.join(os.environ['VERIF_COVERAGE_DIR'], f'cov.{prop}.{shard_index}'), source=[REPO_SRC], branch=True)
        cov.start()
    try:
        import_pregex()
        mod = importlib.import_module(f'pbt.props.{prop.lower()}')
        if int(shard_index) % 3 == 1 and not getattr(mod, 'NO_PRELUDE', False):
            from pbt.common import failed_calls_prelude
            ctx.prelude = True
            ctx.count('history:shard_ran_after_failed_calls_prelude')
            ctx.count('history:prelude_calls', failed_calls_prelude())
        mod.run_shard(spec, ctx)
    except HarnessError as e:
        status = {'ok': False, 'error': f'HarnessError: {e}', 'trace': traceback.format_exc()}
    except BaseException as e:  # noqa: BLE001 - anything escaping a property is a harness bug
        status = {'ok': False, 'error': f'{type(e).__name__}: {e}', 'trace': traceback.format_exc()}
    if cov is not None:
        cov.stop()
        cov.save()
    data = ctx.to_json()
    data['status'] = status
    with open(out, 'w') as f:
        json.dump(data, f)
    return 0 if status['ok'] else 2


if __name__ == '__main__':
    sys.exit(main())

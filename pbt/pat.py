"""Helpers for the matching-API properties (C11-C13): build a pattern from a DSL tree and derive
multi-line subject texts from it. The oracle there is `re` on str(p), so any buildable pattern will do."""
import random
import re

from pbt import dsl


def build_or_none(tree):
    """(pregex object, compiled reference from str(p)) or None when the tree is not buildable/compilable
    (defects of construction belong to C02/C03, not to the matching API)."""
    try:
        p = dsl.build(tree)
        rx = re.compile(str(p), dsl.FLAGS)
    except Exception as e:  # noqa: BLE001
        if type(e).__name__ == 'CaseTimeout':
            raise
        return None
    return p, rx


def subject_texts(tree, tseed, extra=(), limit=8, big=0):
    """A few longer, multi-line texts assembled from the tree's targeted texts. big > 0 adds one text of about that many
    pieces (hundreds of matches, tens of kilobytes): counts, buffers and indices that small texts never reach."""
    rng = random.Random(tseed)
    ws = dsl.texts(tree, tseed, limit=16, maxlen=12)
    out = []
    seps = ['\n', ' ', '', '\n\n', 'x', '\r\n', '-']
    for _ in range(limit):
        k = rng.randint(1, 5)
        parts = [rng.choice(ws) for _ in range(k)]
        sep = rng.choice(seps)
        out.append(sep.join(parts))
    out.extend(ws[:4])
    out.extend(extra)
    if big and dsl.unbounded_depth(tree) < 2:
        seps2 = ['\n', ' ', 'x', '-']
        out.insert(0, ''.join(rng.choice(ws) + rng.choice(seps2) for _ in range(big)))     # first: callers may truncate the list
    out.append('')
    seen, res = set(), []
    for t in out:
        if t not in seen:
            seen.add(t)
            res.append(t)
    return dsl.bounded_texts(tree, res) or ['']


STATES = ['plain', 'plain', 'compile', 'gcp_keep', 'gcp_discard', 'worn', 'worn_compiled', 'worn_long']


def wear(p, n):
    """A long history of ordinary matching calls on the same instance (results are discarded): an instance that has answered a
    thousand questions must answer the next one like a new one."""
    for i in range(n):
        k = i % 5
        if k == 0:
            p.has_match('a\nb')
        elif k == 1:
            p.get_matches('x1 \n-')
        elif k == 2:
            for _ in p.iterate_matches('ab'):
                break                       # a generator abandoned after its first item
        elif k == 3:
            p.is_exact_match('')
        else:
            p.split_by_match('a b')


def apply_state(p, state):
    """Put the instance into one of the states the API can produce (results must not depend on it)."""
    if state == 'compile':
        p.compile()
    elif state == 'gcp_keep':
        p.get_compiled_pattern(discard_after=False)
    elif state == 'gcp_discard':
        p.get_compiled_pattern(discard_after=True)
    elif state == 'worn':
        wear(p, 130)
    elif state == 'worn_compiled':
        p.compile()
        wear(p, 130)
    elif state == 'worn_long':
        wear(p, 1100)


def behaviour(p, text):
    """Everything the public matching API says about `text` (used to compare an object with itself over time)."""
    out = [p.has_match(text), p.is_exact_match(text), p.get_matches(text), p.get_matches_and_pos(text),
           p.get_matches_with_context(text, 1, 2), p.get_captures(text), p.get_captures(text, False),
           p.get_captures_and_pos(text, True, True), p.get_named_captures(text), p.get_named_captures_and_pos(text, False, False),
           p.replace(text, '<>'), p.replace(text, '#', 1), p.replace(text, '', 2), p.split_by_match(text),
           p.split_by_capture(text), p.split_by_capture(text, False)]
    return out


def documented_order(cls):
    """Parameter names in the order the class *documents* them (':param <type> name:' lines of its docstring)."""
    import re as _re
    doc = cls.__doc__ or cls.__init__.__doc__ or ''
    names = _re.findall(r':param\s+(?:[^:]*?\s)?\**(\w+):', doc)
    out = []
    for n in names:
        if n not in out:
            out.append(n)
    return out


def call_documented(cls, values, positional):
    """Call cls with `values` (dict name -> value). positional=k passes the first k documented parameters positionally
    (in the documented order) and the rest by keyword - both conventions must mean the same."""
    order = [n for n in documented_order(cls) if n in values]
    if len(order) != len(values):
        positional = 0
        order = list(values)
    k = max(0, min(positional, len(order)))
    # positional arguments must be a prefix of the documented signature: stop at the first documented name that is not given
    full = documented_order(cls)
    prefix = []
    for n in full:
        if n in values and len(prefix) < k:
            prefix.append(n)
        else:
            break
    args = [values[n] for n in prefix]
    kwargs = {n: v for n, v in values.items() if n not in prefix}
    import inspect
    from pbt.common import Violation
    try:
        inspect.signature(cls).bind(*args, **kwargs)
    except TypeError as e:
        raise Violation('documented_signature', {'class': cls.__name__, 'positional': prefix, 'keywords': sorted(kwargs)},
                        f'{cls.__name__} cannot be called as documented ({len(prefix)} leading parameters {prefix} positionally, '
                        f'{sorted(kwargs)} by keyword): {e}')
    return cls(*args, **kwargs)

"""Coverage-guided tier: drive a property's Hypothesis test through atheris/libFuzzer.

  python3-vt driver.py <prop> <out.json> <runs> <seed> <max_total_time_s>     (spec JSON on stdin)

The property module provides strategy(spec, ctx) and check_case(case, ctx) - exactly what the Hypothesis shards use -
so the oracle is inside the fuzz target. pregex is imported under atheris instrumentation (its decisions are Python-level
branches over its own emitted text, so coverage feedback is meaningful). On a Violation the (unshrunk) case is written
to <out.json> and the process exits; the runner re-checks it in the normal interpreter before reporting anything.
"""
import json
import os
import sys
import time

VERIF = os.path.dirname(os.path.dirname(os.path.dirname(os.path.abspath(__file__))))
sys.path.insert(0, VERIF)


def main():
    prop, out, runs, seed, max_time = sys.argv[1], sys.argv[2], int(sys.argv[3]), int(sys.argv[4]), int(sys.argv[5])
    spec = json.loads(sys.stdin.read() or '{}')
    import atheris
    import warnings
    warnings.simplefilter('ignore')
    from pbt.common import REPO_SRC, Ctx, Violation, CaseTimeout, library_exception
    sys.path.insert(0, REPO_SRC)
    with atheris.instrument_imports(include=['pregex']):
        import pregex  # noqa: F401
        import pregex.core.pre, pregex.core.classes, pregex.core.groups, pregex.core.operators  # noqa: F401,E401
        import pregex.core.quantifiers, pregex.core.assertions, pregex.core.tokens, pregex.meta.essentials  # noqa: F401,E401
    import importlib
    from hypothesis import HealthCheck, given, settings
    mod = importlib.import_module(f'pbt.props.{prop.lower()}')
    ctx = Ctx(prop, 'thorough', seed, spec.get('shard_index', 0), os.environ.get('PYTHONHASHSEED', 'random'), spec)
    state = {'n': 0, 't0': time.time(), 'violation': None}

    def dump():
        data = ctx.to_json()
        data['status'] = {'ok': True}
        data['fuzz'] = {'executions': state['n'], 'wall_s': round(time.time() - state['t0'], 1), 'violation': state['violation']}
        with open(out + '.tmp', 'w') as f:
            json.dump(data, f, default=repr)
        os.replace(out + '.tmp', out)

    @settings(database=None, deadline=None, suppress_health_check=list(HealthCheck), max_examples=10 ** 9)
    @given(mod.strategy(spec, ctx))
    def test(case):
        state['n'] += 1
        try:
            mod.check_case(case, ctx)
        except (Violation, Exception) as e:  # noqa: BLE001
            if isinstance(e, CaseTimeout):
                return
            v = e if isinstance(e, Violation) else library_exception(e, case)
            if v is None:
                raise
            state['violation'] = {'kind': v.kind, 'case': v.case, 'detail': v.detail[:1500]}
            dump()
            os._exit(0)
        if state['n'] % 2000 == 0:
            dump()
        if state['n'] >= runs or time.time() - state['t0'] > max_time:
            dump()
            os._exit(0)

    atheris.Setup([sys.argv[0], f'-seed={seed % (2 ** 31) or 1}', '-max_len=4096', '-timeout=60', '-rss_limit_mb=4096',
                   '-print_final_stats=0', '-verbosity=0'], test.hypothesis.fuzz_one_input)
    atheris.Fuzz()
    dump()


if __name__ == '__main__':
    main()

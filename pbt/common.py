"""Shared plumbing for the property checks: context, violation type, Hypothesis driver.

Every property module in pbt/props exposes

    ID                      'C14'
    shards(tier)            -> list of JSON-able shard specs (dicts); each becomes one worker process
    run_shard(spec, ctx)    -> runs generated cases, reports through ctx
    check_case(case, ctx)   -> re-executes one serialised case directly (used by --replay);
                               raises Violation when the property is broken on it

A run is a pure function of (/repo working tree, VERIF_SEED, tier).
"""
import hashlib
import json
import os
import signal
import sys
import time

REPO_SRC = os.environ.get('VERIF_REPO_SRC', '/repo/src')   # overridden only by tools/sensitivity.py (mutated scratch copies)


class Violation(Exception):
    """The property is broken on `case` (a JSON-able value)."""

    def __init__(self, kind, case, detail=''):
        super().__init__(f'{kind}: {detail}')
        self.kind = kind
        self.case = case
        self.detail = detail


class HarnessError(Exception):
    """The machinery itself is wrong (never reported as a VIOLATION; exit code 2)."""


class CaseTimeout(Exception):
    pass


def derive_seed(*parts):
    h = hashlib.sha256('/'.join(str(p) for p in parts).encode()).digest()
    return int.from_bytes(h[:8], 'big')


def case_hash(case):
    return hashlib.sha1(json.dumps(case, sort_keys=True, ensure_ascii=True, default=repr).encode()).hexdigest()[:16]


def import_pregex():
    """Import pregex from /repo's working tree (and nothing else)."""
    if REPO_SRC not in sys.path:
        sys.path.insert(0, REPO_SRC)
    import warnings
    warnings.simplefilter('ignore')
    import pregex
    f = os.path.realpath(pregex.__file__)
    if not f.startswith(os.path.realpath(REPO_SRC) + os.sep):
        raise HarnessError(f'pregex imported from {f}, not from {REPO_SRC}')
    return pregex


class Ctx:
    """Collects what one shard did. Serialised to JSON by the worker and merged by the runner."""

    MAX_SAMPLES = 12
    MAX_HASHES = 400000

    def __init__(self, prop, tier, seed, shard_index, hash_seed, spec=None):
        self.prop = prop
        self.tier = tier
        self.seed = seed
        self.shard_index = shard_index
        self.hash_seed = hash_seed
        self.spec = spec or {}
        self.evaluations = 0
        self.nontrivial = set()
        self.counters = {}
        self.samples = {}        # hash -> rendered sample (kept: the smallest hashes, i.e. not hand-picked)
        self.violations = []     # dicts
        self.known_hits = {}     # finding id -> count of cases explained by it
        self.suppressed = set()  # buckets already reported in this shard (collect, then continue)
        self.timeouts = 0
        self.inconclusive = []
        self.exhaustive = {}     # name -> size of completely enumerated sub-domain
        self.t0 = time.time()

    # -- bookkeeping -----------------------------------------------------------------------
    def count(self, label, n=1):
        self.counters[label] = self.counters.get(label, 0) + n

    def case(self, case, nontrivial, sample=None, key=None):
        """Register one executed case. `key` overrides the serialisation used for distinctness."""
        self.evaluations += 1
        if nontrivial:
            h = case_hash(case if key is None else key)
            if len(self.nontrivial) < self.MAX_HASHES:
                self.nontrivial.add(h)
            if sample is not None:
                if len(self.samples) < self.MAX_SAMPLES:
                    self.samples[h] = sample
                else:
                    worst = max(self.samples)
                    if h < worst and h not in self.samples:
                        del self.samples[worst]
                        self.samples[h] = sample

    def known(self, fid):
        self.known_hits[fid] = self.known_hits.get(fid, 0) + 1

    def record_violation(self, v, shrunk=True):
        self.violations.append({
            'kind': v.kind, 'case': v.case, 'detail': v.detail[:2000],
            'hash_seed': self.hash_seed, 'shrunk': shrunk, 'shard': self.shard_index,
            'prelude': bool(getattr(self, 'prelude', False)),
        })

    def to_json(self):
        return {
            'prop': self.prop, 'tier': self.tier, 'seed': self.seed, 'shard': self.shard_index,
            'hash_seed': self.hash_seed, 'spec': self.spec,
            'evaluations': self.evaluations, 'nontrivial': sorted(self.nontrivial),
            'counters': self.counters, 'samples': self.samples, 'violations': self.violations,
            'known_hits': self.known_hits, 'timeouts': self.timeouts,
            'inconclusive': self.inconclusive, 'exhaustive': self.exhaustive,
            'wall_s': round(time.time() - self.t0, 3),
        }


# -- per-case watchdog (re has no timeout) ------------------------------------------------------
class watchdog:
    """Abandon a single case after `secs`; a timeout is never a violation."""

    def __init__(self, secs=6):
        self.secs = secs

    def _fire(self, *_):
        raise CaseTimeout()

    def __enter__(self):
        self.old = signal.signal(signal.SIGALRM, self._fire)
        signal.setitimer(signal.ITIMER_REAL, self.secs)

    def __exit__(self, *exc):
        signal.setitimer(signal.ITIMER_REAL, 0)
        signal.signal(signal.SIGALRM, self.old)
        return False


def library_exception(e, case):
    """An unexpected exception that escaped from *library* code (some traceback frame lies in the repository's
    sources) while a property called a public method with valid arguments is a violation of that property
    (the method did not return what it documents); one raised by the harness's own code is a harness error."""
    import traceback
    root = os.path.realpath(REPO_SRC)
    frames = traceback.extract_tb(e.__traceback__)
    if any(os.path.realpath(f.filename).startswith(root + os.sep) for f in frames):
        where = next(f for f in reversed(frames) if os.path.realpath(f.filename).startswith(root + os.sep))
        return Violation(f'library_raised:{type(e).__name__}', case,
                         f'{type(e).__name__}: {str(e)[:300]} (raised through {os.path.basename(where.filename)}:{where.name})')
    return None


def bucket_of(v):
    """Coarse identity of a failure, used only to continue the search past it inside one shard."""
    return v.kind


def run_hypothesis(ctx, strategy, check, max_examples, label='main', rounds=4, shrink=True):
    """Drive `check(case, ctx)` with Hypothesis.

    `check` raises Violation when the property is broken. After a (shrunk) violation its bucket is
    suppressed and the search is re-run, so that several root causes can be collected in one run.
    """
    import hypothesis
    from hypothesis import HealthCheck, Phase, given, settings

    phases = [Phase.explicit, Phase.generate, Phase.target]
    if shrink:
        phases.append(Phase.shrink)
    st_settings = settings(
        max_examples=max_examples, database=None, deadline=None, derandomize=False,
        report_multiple_bugs=False, phases=phases, print_blob=False,
        suppress_health_check=list(HealthCheck),
    )
    for rnd in range(rounds):
        hseed = derive_seed(ctx.seed, ctx.prop, ctx.shard_index, label, rnd)

        def body(case):
            try:
                with watchdog():
                    check(case, ctx)
            except CaseTimeout:
                ctx.timeouts += 1
                if len(ctx.inconclusive) < 3:
                    ctx.inconclusive.append('case abandoned by the watchdog: ' + json.dumps(case, default=repr)[:400])
            except Violation as v:
                if bucket_of(v) in ctx.suppressed:
                    ctx.count('suppressed_repeat:' + bucket_of(v))
                    return
                raise
            except HarnessError:
                raise
            except Exception as e:  # noqa: BLE001
                v = library_exception(e, case)
                if v is None:
                    raise            # raised by the harness itself: a harness error, never a violation
                if bucket_of(v) in ctx.suppressed:
                    ctx.count('suppressed_repeat:' + bucket_of(v))
                    return
                raise v from e

        test = hypothesis.seed(hseed)(st_settings(given(strategy)(body)))
        try:
            test()
            return
        except Violation as v:
            ctx.record_violation(v)
            ctx.suppressed.add(bucket_of(v))
        except hypothesis.errors.Unsatisfiable as e:
            raise HarnessError(f'generator unsatisfiable in {ctx.prop}/{label}: {e}')


def run_enumeration(ctx, cases, check, name, max_violations=5, secs=6):
    """Run `check` over a completely enumerated finite sub-domain (`secs`: watchdog budget per case)."""
    n = 0
    for case in cases:
        n += 1
        try:
            with watchdog(secs):
                check(case, ctx)
        except CaseTimeout:
            ctx.timeouts += 1
            if len(ctx.inconclusive) < 3:
                ctx.inconclusive.append(f'enumerated case abandoned by the watchdog after {secs}s: ' + json.dumps(case, default=repr)[:300])
        except (Violation, Exception) as v:  # noqa: BLE001
            if not isinstance(v, Violation):
                lv = None if isinstance(v, HarnessError) else library_exception(v, case)
                if lv is None:
                    raise
                v = lv
            if bucket_of(v) in ctx.suppressed:
                ctx.count('suppressed_repeat:' + bucket_of(v))
                continue
            ctx.record_violation(v, shrunk=False)
            ctx.suppressed.add(bucket_of(v))
            if len(ctx.violations) >= max_violations:
                ctx.inconclusive.append(f'{name}: stopped after {max_violations} violations')
                return
    ctx.exhaustive[name] = n


def guarded(ctx, case, fn, secs=6):
    """Run fn() inside a hand-written enumeration loop: a Violation, or an unexpected exception that escaped from
    library code, is recorded (once per bucket) instead of aborting the shard. Returns True when fn() completed."""
    try:
        with watchdog(secs):
            fn()
        return True
    except CaseTimeout:
        ctx.timeouts += 1
        ctx.inconclusive.append(f'enumeration unit cut short after {secs}s: {json.dumps(case, default=repr)[:200]}')
        return False
    except HarnessError:
        raise
    except Exception as e:  # noqa: BLE001
        v = e if isinstance(e, Violation) else library_exception(e, case)
        if v is None:
            raise
        if bucket_of(v) in ctx.suppressed:
            ctx.count('suppressed_repeat:' + bucket_of(v))
        else:
            ctx.record_violation(v, shrunk=False)
            ctx.suppressed.add(bucket_of(v))
        return False


def failed_calls_prelude():
    """Process history of *failed* calls: every public callable is called once per parameter and wrong-kind value (C03's
    complete grid; nearly all of these raise a documented exception, the rest return a pattern), and every outcome is
    discarded. A property must hold just the same afterwards: an exception must not leave anything behind in the
    library's module- or class-level state. Run by the worker before the shard for a third of the shards, and by
    --replay when the replay file says the violation was found after it."""
    from pbt.props import c03
    n = 0
    for case in c03.grid_cases():
        n += 1
        try:
            with watchdog(6):
                obj = dict((t[0], t[1]) for t in c03.targets())[case['target']]
                args = [c03.decode(v) for v in case['args']]
                kwargs = {k: c03.decode(v) for k, v in case['kwargs'].items()}
                if case['target'].startswith('method:'):
                    from pbt import dsl
                    getattr(dsl.build(case['recv']), obj)(*args, **kwargs)
                else:
                    obj(*args, **kwargs)
        except (KeyboardInterrupt, SystemExit):
            raise
        except BaseException:  # noqa: BLE001 - the outcome of a prelude call is irrelevant (C03 judges these calls)
            pass
    return n

"""known_findings.txt: genuine defects of /repo that are recorded rather than repaired.

Line formats (one per line, '#' comments allowed):

  finding: property=<ID> id=<KF-..> predicate=<name> kind=<failure kind> example=<json case> :: <what fails>
  fixed: property=<ID> <commit> <what failed>

A failing case is attributed to a finding iff the property, the failure kind and the named input
predicate (a function over the *generated input*, registered below) all match a listed line.
`fixed:` lines suppress nothing. The file is read-only at run time.
"""
import json
import os
import re

PATH = os.path.join(os.path.dirname(os.path.dirname(os.path.abspath(__file__))), 'known_findings.txt')

PREDICATES = {}


def predicate(fn):
    PREDICATES[fn.__name__] = fn
    return fn


_LINE = re.compile(
    r'^finding:\s+property=(?P<prop>\S+)\s+id=(?P<id>\S+)\s+predicate=(?P<pred>\S+)\s+kind=(?P<kind>\S+)'
    r'\s+example=(?P<example>.*?)\s+::\s+(?P<text>.*)$')

_cache = None
_disabled = False


def load():
    global _cache
    if _cache is None:
        out = []
        if os.path.exists(PATH):
            for line in open(PATH, encoding='utf-8'):
                line = line.rstrip('\n')
                if not line.startswith('finding:'):
                    continue
                m = _LINE.match(line)
                if not m:
                    raise ValueError(f'malformed known finding line: {line!r}')
                d = m.groupdict()
                d['example'] = json.loads(d['example'])
                out.append(d)
        _cache = out
    return _cache


def fixed_lines():
    out = []
    if os.path.exists(PATH):
        for line in open(PATH, encoding='utf-8'):
            if line.startswith('fixed:'):
                out.append(line.strip())
    return out


def for_property(prop):
    return [f for f in load() if f['prop'] == prop]


class disabled:
    """Context manager: classify() explains nothing (used when replaying a finding's own example)."""

    def __enter__(self):
        global _disabled
        self.old = _disabled
        _disabled = True

    def __exit__(self, *exc):
        global _disabled
        _disabled = self.old
        return False


def classify(prop, kind, case):
    """Return the id of the listed finding that explains this failing case, or None."""
    if _disabled:
        return None
    for f in for_property(prop):
        if f['kind'] != kind and f['kind'] != '*':
            continue
        fn = PREDICATES.get(f['pred'])
        if fn is None:
            raise ValueError(f"known finding {f['id']} names unknown predicate {f['pred']}")
        try:
            if fn(case):
                return f['id']
        except Exception:  # a predicate that cannot read the case does not explain it
            continue
    return None


# ---------------------------------------------------------------------------------------------
# Input predicates. Each is a function of the generated case only (never of library internals).
# They are registered from the property modules' own helper code to keep them next to the
# case format they read; see pbt/props/*.py (functions decorated with @findings.predicate).
# ---------------------------------------------------------------------------------------------

"""Shared evaluation of one expression-tree case: build the real object, compare with the model.

evaluate() classifies the outcome; each property module raises a Violation only for the outcome
kinds it owns and counts the others (they belong to the property that owns them).
"""
import re

from pbt import dsl

DOCUMENTED = None


def documented_exceptions():
    global DOCUMENTED
    if DOCUMENTED is None:
        import pregex.core.exceptions as ex
        DOCUMENTED = tuple(v for k, v in vars(ex).items() if isinstance(v, type) and issubclass(v, Exception))
    return DOCUMENTED


class Outcome:
    __slots__ = ('kind', 'detail', 'pattern', 'ref', 'model', 'matched', 'texts', 'exc')

    def __init__(self, kind, detail='', pattern=None, ref=None, model=None, matched=False, texts=(), exc=None):
        self.kind = kind
        self.detail = detail
        self.pattern = pattern
        self.ref = ref
        self.model = model
        self.matched = matched      # some subject text had >= 1 reference match
        self.texts = texts
        self.exc = exc


def evaluate(tree, tseed=0, leaf_mode='own', extra_texts=(), check_export=False, builder=None):
    """Outcome kinds:
      ok                              equivalent to the reference on all texts
      unspec                          the property/docs do not determine the result (construction did not crash)
      expected_exception              a documented exception that the model predicts
      leaf_failed:<Exc>               a *leaf* could not be built standalone (owned by C03/C06)
      unexpected_exception:<Exc>      an exception that is not one of pregex's own
      undocumented_use:<Exc>          one of pregex's exceptions that the model does not predict
      missing_exception:<Exc>         the model predicts a documented exception; none was raised
      not_compilable                  emitted text rejected by re although the reference compiles
      diff:groups / diff:match        semantic difference with the reference
      export:<what>                   get_pattern() not printable / not compilable / not equivalent
    """
    expect = None
    unspec = None
    m = None
    try:
        m = dsl.model(tree, leaf_mode)
    except dsl.Unspec as e:
        unspec = str(e)
    except dsl.Expect as e:
        expect = e
    except documented_exceptions() as e:
        return Outcome(f'leaf_failed:{type(e).__name__}', str(e)[:300])
    except (RecursionError, TypeError, IndexError, ValueError, re.error, KeyError, AttributeError) as e:
        return Outcome(f'leaf_failed:{type(e).__name__}', str(e)[:300])

    try:
        p = (builder or dsl.build)(tree)
    except documented_exceptions() as e:
        name = type(e).__name__
        if unspec is not None:
            return Outcome('unspec', unspec)
        if expect is not None and name in expect.names:
            return Outcome('expected_exception', name, exc=name)
        return Outcome(f'undocumented_use:{name}', f'{str(e)[:200]} (model expected: {expect})', exc=name)
    except BaseException as e:  # noqa: BLE001
        if isinstance(e, (KeyboardInterrupt, SystemExit)) or type(e).__name__ in ('CaseTimeout', 'HarnessError'):
            raise
        return Outcome(f'unexpected_exception:{type(e).__name__}', str(e)[:300], exc=type(e).__name__)

    pattern = str(p)
    if expect is not None:
        return Outcome(f'missing_exception:{expect.names[0]}', f'{expect.why}; got pattern {pattern!r}', pattern=pattern)
    if unspec is not None:
        return Outcome('unspec', unspec, pattern=pattern)

    try:
        rb = re.compile(m.ref, dsl.FLAGS)
    except (re.error, RecursionError, OverflowError) as e:
        return Outcome('unspec', f'reference does not compile: {e}', pattern=pattern, ref=m.ref)
    try:
        ra = re.compile(pattern, dsl.FLAGS)
    except (re.error, RecursionError, OverflowError) as e:
        return Outcome('not_compilable', f'emitted {pattern!r}: {e}; reference {m.ref!r} compiles', pattern=pattern,
                       ref=m.ref, model=m)
    if m.empty != (pattern == ''):
        return Outcome('diff:empty', f'emitted {pattern!r} but model empty={m.empty}', pattern=pattern, ref=m.ref, model=m)

    txts = list(dsl.texts(tree, tseed)) + [t for t in extra_texts if t not in ('',)]
    txts = dsl.bounded_texts(tree, txts)
    matched = any(rb.search(t) is not None and rb.search(t).group(0) != '' for t in txts)
    if ra.groups != rb.groups or dict(ra.groupindex) != dict(rb.groupindex):
        return Outcome('diff:groups', f'emitted {pattern!r} has groups={ra.groups} names={dict(ra.groupindex)}; '
                       f'reference {m.ref!r} has groups={rb.groups} names={dict(rb.groupindex)}',
                       pattern=pattern, ref=m.ref, model=m, matched=matched, texts=txts)
    for t in txts:
        oa, ob = dsl.observe(ra, t), dsl.observe(rb, t)
        if oa != ob:
            return Outcome('diff:match', f'emitted {pattern!r} vs reference {m.ref!r} on text {t!r}: {oa} vs {ob}',
                           pattern=pattern, ref=m.ref, model=m, matched=matched, texts=txts)
    if check_export:
        exp = p.get_pattern()
        if not exp.isprintable():
            return Outcome('export:not_printable', f'get_pattern() {exp!r} of {pattern!r}', pattern=pattern, model=m)
        try:
            rc = re.compile(exp, dsl.FLAGS)
        except (re.error, RecursionError, OverflowError) as e:
            return Outcome('export:not_compilable', f'get_pattern() {exp!r} of {pattern!r}: {e}', pattern=pattern, model=m)
        d = dsl.equivalent(rc, ra, txts)
        if d:
            return Outcome('export:not_equivalent', f'get_pattern() {exp!r} vs str {pattern!r}: {d}', pattern=pattern, model=m)
    return Outcome('ok', pattern=pattern, ref=m.ref, model=m, matched=matched, texts=txts)


def grouping_matters(tree, outcome):
    """Non-trivial rule helper for C02: does some *unparenthesised* reading of the same operand
    texts behave differently from the reference on the case's texts? (i.e. grouping actually matters)"""
    if outcome.ref is None:
        return False
    flat = re.sub(r'\(\?:', '(?:', outcome.ref)
    # drop every '(?:' ... ')' pair that the reference added around operands: strip the wrappers
    naive = _strip_wrappers(flat)
    if naive == outcome.ref:
        return False
    try:
        rn = re.compile(naive, dsl.FLAGS)
        rb = re.compile(outcome.ref, dsl.FLAGS)
    except (re.error, RecursionError, OverflowError):
        return True    # without the grouping the text is not even a regex
    for t in outcome.texts:
        try:
            if dsl.observe(rn, t)[0] != dsl.observe(rb, t)[0]:
                return True
        except Exception:
            return True
    return False


def _strip_wrappers(ref):
    """Remove the non-capturing wrappers '(?:' ... ')' (balanced), keeping everything else."""
    out, stack, i = [], [], 0
    n = len(ref)
    while i < n:
        c = ref[i]
        if c == '\\' and i + 1 < n:
            out.append(ref[i:i + 2])
            i += 2
            continue
        if c == '[':
            j = i + 1
            if j < n and ref[j] == '^':
                j += 1
            if j < n and ref[j] == ']':
                j += 1
            while j < n and ref[j] != ']':
                j += 2 if ref[j] == '\\' else 1
            out.append(ref[i:j + 1])
            i = j + 1
            continue
        if c == '(':
            if ref.startswith('(?:', i):
                stack.append(True)
                i += 3
                continue
            stack.append(False)
            out.append(c)
            i += 1
            continue
        if c == ')':
            if stack and stack.pop():
                i += 1
                continue
            out.append(c)
            i += 1
            continue
        out.append(c)
        i += 1
    return ''.join(out)

"""Expression DSL ("programs"): JSON-able ASTs, Hypothesis strategies, builder for the real Pregex,
value-level model (reference regex, emptiness, width, captures, repeatability), renderer, witnesses.

Node forms (lists, JSON round-trippable):

  ['lit', s, as_str]                 a Python string; as_str -> hand the raw str to the API where a str is accepted
  ['cls', cexpr]                     class expression (see charsets.py)
  ['tok', Name]                      pregex.core.tokens.<Name>()
  ['empty', k]                       one of the spellings of the empty pattern (EMPTY_SPELLINGS[k])
  ['wb'] ['nwb']                     WordBoundary() / NonWordBoundary()
  ['cat', sp, [x...]]                sp: 'class' | 'method' | 'method_left' | 'op'
  ['alt', sp, [x...]]                sp: 'class' | 'method' | 'method_left'
  ['enc', sp, x, [e...]]             sp: 'class' | 'method'
  ['q', kind, sp, x, n, m, greedy]   kind: opt star plus exactly atleast atmost range; sp: class|method|mul|rmul
  ['grp', sp, x, ci]                 sp: 'class' | 'method'
  ['cap', sp, x, name]
  ['anchor', kind, sp, x]            kind: start end lstart lend
  ['look', kind, sp, x, [a...]]      kind: fb pb eb nfb npb neb
"""
import random
import re

from pbt import charsets as cs

FLAGS = re.MULTILINE | re.DOTALL

EMPTY_SPELLINGS = [
    'Pregex()', "Pregex('')", "Exactly('a', 0)", "AtMost('a', 0)", "Pregex('a') * 0", 'Concat()', 'Either()',
    'Optional(Pregex())', 'Group(Pregex())', 'Capture(Pregex())', "AtLeastAtMost('ab', 0, 0)",
    'Indefinite(Pregex(), is_greedy=False)', "Capture(Pregex(), 'e')", 'Group(Pregex(), is_case_insensitive=True)',
    'Concat(Pregex(), Pregex())', 'Pregex().concat(Pregex())', "Pregex('', escape=False)", '0 * AnyLetter()',
]

QCLASS = {'opt': 'Optional', 'star': 'Indefinite', 'plus': 'OneOrMore', 'exactly': 'Exactly',
          'atleast': 'AtLeast', 'atmost': 'AtMost', 'range': 'AtLeastAtMost'}
QMETHOD = {'opt': 'optional', 'star': 'indefinite', 'plus': 'one_or_more', 'exactly': 'exactly',
           'atleast': 'at_least', 'atmost': 'at_most', 'range': 'at_least_at_most'}
ANCHOR_CLASS = {'start': 'MatchAtStart', 'end': 'MatchAtEnd', 'lstart': 'MatchAtLineStart', 'lend': 'MatchAtLineEnd'}
ANCHOR_METHOD = {'start': 'match_at_start', 'end': 'match_at_end', 'lstart': 'match_at_line_start',
                 'lend': 'match_at_line_end'}
LOOK_CLASS = {'fb': 'FollowedBy', 'pb': 'PrecededBy', 'eb': 'EnclosedBy', 'nfb': 'NotFollowedBy',
              'npb': 'NotPrecededBy', 'neb': 'NotEnclosedBy'}
LOOK_METHOD = {'fb': 'followed_by', 'pb': 'preceded_by', 'eb': 'enclosed_by', 'nfb': 'not_followed_by',
               'npb': 'not_preceded_by', 'neb': 'not_enclosed_by'}


def api():
    """Namespace with the public pregex API (used by eval of empty spellings and by build)."""
    import pregex.core.assertions as asr
    import pregex.core.classes as cl
    import pregex.core.groups as gr
    import pregex.core.operators as op
    import pregex.core.quantifiers as qu
    import pregex.core.tokens as tk
    from pregex.core.pre import Pregex
    ns = {'Pregex': Pregex}
    for mod in (asr, cl, gr, op, qu, tk):
        for name in dir(mod):
            if not name.startswith('_'):
                ns[name] = getattr(mod, name)
    return ns


_API = None


def ns():
    global _API
    if _API is None:
        _API = api()
    return _API


# ---------------------------------------------------------------------------------------------
# build
# ---------------------------------------------------------------------------------------------
REFS = []


def is_str_leaf(node):
    return node[0] == 'lit' and node[2]


class TaggedStr(str):
    """A str subclass whose str()/repr()/format() differ from its value (like a `class X(str, Enum)` member): it IS the
    string it was built from, and must be treated as such wherever a str is accepted."""

    def __str__(self):
        return 'TaggedStr.MEMBER'

    def __repr__(self):
        return '<TaggedStr>'

    def __format__(self, spec):
        return 'TaggedStr.MEMBER'


def arg(node):
    """Value for an argument position that accepts `Pregex | str`."""
    if is_str_leaf(node):
        return TaggedStr(node[1]) if node[2] == 'sub' else node[1]
    return build(node)


def build(node):
    """Build the real Pregex for `node` (receiver positions always get a Pregex)."""
    A = ns()
    k = node[0]
    if k == 'ref':          # a live, shared object (C20 builds expressions out of previously built objects)
        return REFS[node[1]]
    if k == 'lit':
        return A['Pregex'](TaggedStr(node[1]) if node[2] == 'sub' else node[1])
    if k == 'cls':
        return cs.build(node[1])
    if k == 'tok':
        return A[node[1]]()
    if k == 'empty':
        return eval(EMPTY_SPELLINGS[node[1] % len(EMPTY_SPELLINGS)], dict(A))
    if k == 'wb':
        return A['WordBoundary']()
    if k == 'nwb':
        return A['NonWordBoundary']()
    if k == 'cat':
        sp, xs = node[1], node[2]
        if sp == 'class':
            return A['Concat'](*[arg(x) for x in xs])
        if sp == 'method':
            vals = [build(xs[0])] + [arg(x) for x in xs[1:]] if xs else []
            r = vals[0] if vals else A['Pregex']()
            for v in vals[1:]:
                r = r.concat(v)
            return r
        if sp == 'method_left':
            vals = [arg(x) for x in xs[:-1]] + [build(xs[-1])] if xs else []
            r = vals[-1] if vals else A['Pregex']()
            for v in reversed(vals[:-1]):
                r = r.concat(v, on_right=False)
            return r
        if sp == 'op':
            vals = [arg(x) for x in xs]
            if not vals:
                return A['Pregex']()
            if isinstance(vals[0], str) and (len(vals) == 1 or isinstance(vals[1], str)):
                vals[0] = A['Pregex'](vals[0])
            r = vals[0]
            for v in vals[1:]:
                r = r + v
            return r
    if k == 'alt':
        sp, xs = node[1], node[2]
        if sp == 'class':
            return A['Either'](*[arg(x) for x in xs])
        if sp == 'method':
            vals = [build(xs[0])] + [arg(x) for x in xs[1:]] if xs else []
            r = vals[0] if vals else A['Pregex']()
            for v in vals[1:]:
                r = r.either(v)
            return r
        if sp == 'method_left':
            vals = [arg(x) for x in xs[:-1]] + [build(xs[-1])] if xs else []
            r = vals[-1] if vals else A['Pregex']()
            for v in reversed(vals[:-1]):
                r = r.either(v, on_right=False)
            return r
    if k == 'enc':
        sp, x, es = node[1], node[2], node[3]
        if sp == 'class':
            return A['Enclose'](arg(x), *[arg(e) for e in es])
        r = build(x)
        vals = [arg(e) for e in es]
        for v in vals:
            r = r.enclose(v)
        return r
    if k == 'q':
        kind, sp, x, n, m, greedy = node[1:7]
        if sp == 'mul':
            return build(x) * n
        if sp == 'rmul':
            return n * build(x)
        if sp == 'class':
            c, a = A[QCLASS[kind]], arg(x)
            if kind in ('opt', 'star', 'plus'):
                return c(a, greedy)
            if kind == 'exactly':
                return c(a, n)
            if kind == 'atleast':
                return c(a, n, greedy)
            if kind == 'atmost':
                return c(a, m, greedy)
            return c(a, n, m, greedy)
        r = build(x)
        f = getattr(r, QMETHOD[kind])
        if kind in ('opt', 'star', 'plus'):
            return f(greedy)
        if kind == 'exactly':
            return f(n)
        if kind == 'atleast':
            return f(n, greedy)
        if kind == 'atmost':
            return f(m, greedy)
        return f(n, m, greedy)
    if k == 'grp':
        sp, x, ci = node[1], node[2], node[3]
        if sp == 'class':
            return A['Group'](arg(x), ci) if ci else A['Group'](arg(x))
        return build(x).group(ci)
    if k == 'cap':
        sp, x, name = node[1], node[2], node[3]
        if sp == 'class':
            return A['Capture'](arg(x), name) if name is not None else A['Capture'](arg(x))
        return build(x).capture(name)
    if k == 'anchor':
        kind, sp, x = node[1], node[2], node[3]
        if sp == 'class':
            return A[ANCHOR_CLASS[kind]](arg(x))
        return getattr(build(x), ANCHOR_METHOD[kind])()
    if k == 'look':
        kind, sp, x, as_ = node[1], node[2], node[3], node[4]
        if sp == 'class':
            return A[LOOK_CLASS[kind]](arg(x), *[arg(a) for a in as_])
        r = build(x)
        vals = [arg(a) for a in as_]
        for v in vals:
            r = getattr(r, LOOK_METHOD[kind])(v)
        return r
    if k == 'bref':
        return A['Backreference'](node[1])
    if k == 'cond':
        if node[3] is None:
            return A['Conditional'](node[1], arg(node[2]))
        return A['Conditional'](node[1], arg(node[2]), arg(node[3]))
    from pbt.common import HarnessError
    raise HarnessError(f'unknown node {node!r}')


# ---------------------------------------------------------------------------------------------
# render as a runnable Python expression
# ---------------------------------------------------------------------------------------------
def render_arg(node):
    if is_str_leaf(node):
        return f'TaggedStr({node[1]!r})' if node[2] == 'sub' else repr(node[1])
    return render(node)


def render(node):
    k = node[0]
    if k == 'lit':
        return f'Pregex(TaggedStr({node[1]!r}))' if node[2] == 'sub' else f'Pregex({node[1]!r})'
    if k == 'cls':
        return cs.render(node[1])
    if k == 'tok':
        return f'{node[1]}()'
    if k == 'empty':
        return EMPTY_SPELLINGS[node[1] % len(EMPTY_SPELLINGS)]
    if k == 'wb':
        return 'WordBoundary()'
    if k == 'nwb':
        return 'NonWordBoundary()'
    if k in ('cat', 'alt'):
        sp, xs = node[1], node[2]
        cname, mname = ('Concat', 'concat') if k == 'cat' else ('Either', 'either')
        if sp == 'class':
            return f'{cname}(' + ', '.join(render_arg(x) for x in xs) + ')'
        if not xs:
            return 'Pregex()'
        if sp == 'method':
            return _recv(xs[0]) + ''.join(f'.{mname}({render_arg(x)})' for x in xs[1:])
        if sp == 'method_left':
            return _recv(xs[-1]) + ''.join(f'.{mname}({render_arg(x)}, on_right=False)' for x in reversed(xs[:-1]))
        parts = [render_arg(x) for x in xs]
        if is_str_leaf(xs[0]) and (len(xs) == 1 or is_str_leaf(xs[1])):
            parts[0] = render(xs[0])
        return '(' + ' + '.join(_paren(p, x) for p, x in zip(parts, xs)) + ')'
    if k == 'enc':
        sp, x, es = node[1], node[2], node[3]
        if sp == 'class':
            return 'Enclose(' + ', '.join([render_arg(x)] + [render_arg(e) for e in es]) + ')'
        return _recv(x) + ''.join(f'.enclose({render_arg(e)})' for e in es)
    if k == 'q':
        kind, sp, x, n, m, greedy = node[1:7]
        if sp == 'mul':
            return f'({_recv(x)} * {n!r})'
        if sp == 'rmul':
            return f'({n!r} * {_recv(x)})'
        g = '' if greedy is True else f', is_greedy={greedy!r}'
        if kind in ('opt', 'star', 'plus'):
            args = g
        elif kind == 'exactly':
            args = f', {n!r}'
        elif kind == 'atleast':
            args = f', {n!r}{g}'
        elif kind == 'atmost':
            args = f', {m!r}{g}'
        else:
            args = f', {n!r}, {m!r}{g}'
        if sp == 'class':
            return f'{QCLASS[kind]}({render_arg(x)}{args})'
        return f'{_recv(x)}.{QMETHOD[kind]}({args[2:]})'
    if k == 'grp':
        sp, x, ci = node[1], node[2], node[3]
        c = ', is_case_insensitive=True' if ci else ''
        if sp == 'class':
            return f'Group({render_arg(x)}{c})'
        return f'{_recv(x)}.group({c[2:]})'
    if k == 'cap':
        sp, x, name = node[1], node[2], node[3]
        c = f', {name!r}' if name is not None else ''
        if sp == 'class':
            return f'Capture({render_arg(x)}{c})'
        return f'{_recv(x)}.capture({c[2:]})'
    if k == 'anchor':
        kind, sp, x = node[1], node[2], node[3]
        if sp == 'class':
            return f'{ANCHOR_CLASS[kind]}({render_arg(x)})'
        return f'{_recv(x)}.{ANCHOR_METHOD[kind]}()'
    if k == 'look':
        kind, sp, x, as_ = node[1], node[2], node[3], node[4]
        if sp == 'class':
            return f'{LOOK_CLASS[kind]}(' + ', '.join([render_arg(x)] + [render_arg(a) for a in as_]) + ')'
        return _recv(x) + ''.join(f'.{LOOK_METHOD[kind]}({render_arg(a)})' for a in as_)
    if k == 'bref':
        return f'Backreference({node[1]!r})'
    if k == 'cond':
        return f'Conditional({node[1]!r}, {render_arg(node[2])}' + (f', {render_arg(node[3])})' if node[3] is not None else ')')
    raise ValueError(node)


def _recv(node):
    r = render(node)
    if node[0] == 'cls' and node[1][0] in ('or', 'sub', 'inv'):
        return f'({r})'
    return r


def _paren(text, node):
    if node[0] == 'cls' and node[1][0] in ('or', 'sub'):
        return f'({text})'
    return text


# ---------------------------------------------------------------------------------------------
# model
# ---------------------------------------------------------------------------------------------
class Unspec(Exception):
    """The documentation/property does not determine the outcome for this expression."""


class Expect(Exception):
    """The documented outcome is that the construction raises one of `names`."""

    def __init__(self, names, why=''):
        super().__init__(f"{'/'.join(names)} {why}")
        self.names = tuple(names)
        self.why = why


class M:
    """Value-level model of a built expression."""

    __slots__ = ('ref', 'empty', 'lo', 'hi', 'direct_assert', 'has_assert', 'caps', 'top', 'inner',
                 'wunspec', 'nops')

    def __init__(self, ref, empty=False, lo=0, hi=0, direct_assert=False, has_assert=False, caps=(), top=None,
                 inner=None, wunspec=False, nops=0):
        self.ref = ref
        self.empty = empty
        self.lo, self.hi = lo, hi              # hi None = unbounded
        self.direct_assert = direct_assert     # anchor / positive lookaround applied directly (non-repeatable)
        self.has_assert = has_assert           # contains an anchor or positive lookaround anywhere
        self.caps = tuple(caps)                # names (None = unnamed) of capturing groups in opening order
        self.top = top                         # None | ('cap', name) | ('grp', ci)
        self.inner = inner                     # model of the group's content when top is set
        self.wunspec = wunspec                 # width not determined structurally
        self.nops = nops                       # operator nodes that actually contributed


EMPTY = M('', empty=True)


def _w(ref):
    return f'(?:{ref})'


def _add(a, b):
    return None if a is None or b is None else a + b


def _check_dups(caps):
    names = [c for c in caps if c is not None]
    if len(names) != len(set(names)):
        raise Unspec('the same group name would be defined twice')


def m_concat(parts):
    parts = [p for p in parts if not p.empty]
    if not parts:
        return EMPTY
    if len(parts) == 1:
        return parts[0]
    caps = sum((p.caps for p in parts), ())
    _check_dups(caps)
    hi = 0
    for p in parts:
        hi = _add(hi, p.hi)
    return M(''.join(_w(p.ref) for p in parts), lo=sum(p.lo for p in parts), hi=hi,
             has_assert=any(p.has_assert for p in parts), caps=caps,
             wunspec=any(p.wunspec for p in parts), nops=1 + sum(p.nops for p in parts))


def m_either_fold(cur, nxt):
    """receiver.either(argument): an empty *argument* vanishes; an empty *receiver* is unspecified."""
    if nxt.empty:
        return cur
    if cur.empty:
        raise Unspec('either() with an empty receiver / empty first alternative')
    return ('pair', cur, nxt)


def m_either(parts_in_fold_order, textual_order):
    """parts_in_fold_order[0] is the receiver; textual_order maps the surviving parts to left-to-right."""
    cur = parts_in_fold_order[0]
    kept = [0]
    cur_empty = cur.empty
    for i, p in enumerate(parts_in_fold_order[1:], 1):
        if p.empty:
            continue
        if cur_empty:
            raise Unspec('either() with an empty receiver / empty first alternative')
        kept.append(i)
    if cur_empty:
        return EMPTY
    parts = [parts_in_fold_order[i] for i in kept]
    if textual_order == 'reversed':
        parts = parts[::-1]
    if len(parts) == 1:
        return parts[0]
    caps = sum((p.caps for p in parts), ())
    _check_dups(caps)
    his = [p.hi for p in parts]
    return M('|'.join(_w(p.ref) for p in parts), lo=min(p.lo for p in parts),
             hi=None if any(h is None for h in his) else max(his),
             has_assert=any(p.has_assert for p in parts), caps=caps,
             wunspec=any(p.wunspec for p in parts), nops=1 + sum(p.nops for p in parts))


def m_enclose(x, e):
    if e.empty:
        return x
    if x.empty:
        # Enclose(empty, e) is e e: concatenation of e with itself
        caps = e.caps + e.caps
        _check_dups(caps)
        return M(_w(e.ref) * 2, lo=2 * e.lo, hi=_add(e.hi, e.hi), has_assert=e.has_assert, caps=caps,
                 wunspec=e.wunspec, nops=1 + e.nops)
    caps = e.caps + x.caps + e.caps
    _check_dups(caps)
    return M(_w(e.ref) + _w(x.ref) + _w(e.ref), lo=x.lo + 2 * e.lo, hi=_add(x.hi, _add(e.hi, e.hi)),
             has_assert=x.has_assert or e.has_assert, caps=caps, wunspec=x.wunspec or e.wunspec,
             nops=1 + x.nops + e.nops)


def canon_bounds(kind, n, m):
    if kind == 'opt':
        return 0, 1
    if kind == 'star':
        return 0, None
    if kind == 'plus':
        return 1, None
    if kind == 'exactly':
        return n, n
    if kind == 'atleast':
        return n, None
    if kind == 'atmost':
        return 0, m
    return n, m


def _is_int(v):
    return isinstance(v, int) and not isinstance(v, bool)


def validate_bounds(kind, sp, n, m):
    """Documented argument rules of the quantifiers. Raises Expect."""
    T, V = 'InvalidArgumentTypeException', 'InvalidArgumentValueException'
    if kind in ('opt', 'star', 'plus'):
        return
    if kind in ('exactly', 'atleast'):
        if not _is_int(n):
            raise Expect([T], 'n not an integer')
        if n < 0:
            raise Expect([V], 'n negative')
        return
    if kind == 'atmost':
        if m is None:
            return
        if not _is_int(m):
            raise Expect([T], 'n neither integer nor None')
        if m < 0:
            raise Expect([V], 'n negative')
        return
    bad_t = (not _is_int(n)) or (m is not None and not _is_int(m))
    bad_v = (_is_int(n) and n < 0) or (_is_int(m) and m < 0) or (_is_int(n) and _is_int(m) and m < n)
    if bad_t and bad_v:
        raise Expect([T, V], 'bad type and bad value')
    if bad_t:
        raise Expect([T], 'bound of wrong type')
    if bad_v:
        raise Expect([V], 'negative or inverted bounds')


def m_quant(x, kind, sp, n, m, greedy):
    validate_bounds(kind, sp, n, m)
    lo, hi = canon_bounds(kind, n, m)
    repeating = hi is None or hi > 1
    if x.empty:
        return EMPTY
    if repeating:
        if x.direct_assert:
            raise Expect(['CannotBeRepeatedException'], 'repeating quantifier directly on an anchor/positive lookaround')
        if x.has_assert:
            raise Unspec('repeating a pattern that merely contains an anchor/positive lookaround')
    if lo == 0 and hi == 0:
        return EMPTY
    if lo == 1 and hi == 1:
        return x
    if hi is None:
        q = f'{{{lo},}}'
    elif lo == hi:
        q = f'{{{lo}}}'
    else:
        q = f'{{{lo},{hi}}}'
    if not greedy and lo != hi:
        q += '?'
    if x.hi is None:
        new_hi = None
    elif hi is None:
        new_hi = None if x.hi > 0 else 0
    else:
        new_hi = x.hi * hi
    return M(_w(x.ref) + q, lo=x.lo * lo, hi=new_hi, has_assert=x.has_assert, caps=x.caps, wunspec=x.wunspec,
             nops=1 + x.nops)


NAME_RE = re.compile(r'[A-Za-z_][A-Za-z_0-9]*\Z')


def validate_name(name):
    if name is None:
        return
    if not isinstance(name, str):
        raise Expect(['InvalidArgumentTypeException'], 'name not a string')
    if NAME_RE.match(name) is not None:
        return
    if re.fullmatch(r'[A-Za-z_]\w*', name) is not None and name.isidentifier():
        return          # "word characters only, starting with a non-digit": a non-ASCII identifier is a valid name
    raise Expect(['InvalidCapturingGroupNameException'], 'bad group name')


def m_capture(x, name):
    validate_name(name)
    if x.empty:
        return EMPTY
    if x.top is not None and x.top[0] == 'cap':
        if name is None:
            return x
        inner = x.inner
        caps = (name,) + x.caps[1:]
        _check_dups(caps)
        return M(f'(?P<{name}>{inner.ref})', lo=x.lo, hi=x.hi, has_assert=x.has_assert, caps=caps,
                 top=('cap', name), inner=inner, wunspec=x.wunspec, nops=1 + inner.nops)
    if x.top is not None and x.top[0] == 'grp' and not x.top[1]:
        body = x.inner       # plain non-capturing group converts
    else:
        body = x             # anything else (incl. a flagged group) is wrapped as a whole
    caps = (name,) + body.caps
    _check_dups(caps)
    head = f'(?P<{name}>' if name is not None else '('
    return M(f'{head}{body.ref})', lo=body.lo, hi=body.hi, has_assert=body.has_assert, caps=caps,
             top=('cap', name), inner=body, wunspec=body.wunspec, nops=1 + body.nops)


def m_group(x, ci):
    if x.empty:
        return EMPTY
    body = x.inner if x.top is not None else x     # re-group / un-capture operate on the content
    head = '(?i:' if ci else '(?:'
    return M(f'{head}{body.ref})', lo=body.lo, hi=body.hi, has_assert=body.has_assert, caps=body.caps,
             top=('grp', bool(ci)), inner=body, wunspec=body.wunspec, nops=1 + body.nops)


def m_anchor(x, kind):
    body = '' if x.empty else _w(x.ref)
    ref = {'start': f'\\A{body}', 'end': f'{body}\\Z', 'lstart': f'^{body}', 'lend': f'{body}$'}[kind]
    return M(ref, lo=x.lo, hi=x.hi, direct_assert=True, has_assert=True, caps=x.caps, wunspec=x.wunspec,
             nops=1 + x.nops)


def m_look(x, kind, a):
    negative = kind in ('nfb', 'npb', 'neb')
    if a.empty:
        if negative:
            raise Expect(['EmptyNegativeAssertionException'], 'negative lookaround on the empty pattern')
        return x
    if kind in ('pb', 'eb', 'npb', 'neb'):
        if a.wunspec:
            raise Unspec('lookbehind width not determined structurally')
        if a.lo != a.hi:
            raise Expect(['NonFixedWidthPatternException'], f'lookbehind of width ({a.lo},{a.hi})')
    body = '' if x.empty else _w(x.ref)
    A = _w(a.ref)
    if kind == 'fb':
        ref, caps = f'{body}(?={A})', x.caps + a.caps
    elif kind == 'nfb':
        ref, caps = f'{body}(?!{A})', x.caps + a.caps
    elif kind == 'pb':
        ref, caps = f'(?<={A}){body}', a.caps + x.caps
    elif kind == 'npb':
        ref, caps = f'(?<!{A}){body}', a.caps + x.caps
    elif kind == 'eb':
        ref, caps = f'(?<={A}){body}(?={A})', a.caps + x.caps + a.caps
    else:
        ref, caps = f'(?<!{A}){body}(?!{A})', a.caps + x.caps + a.caps
    _check_dups(caps)
    return M(ref, lo=x.lo, hi=x.hi, direct_assert=not negative, has_assert=(not negative) or x.has_assert
             or a.has_assert, caps=caps, wunspec=x.wunspec, nops=1 + x.nops + a.nops)


def leaf_text_own(node):
    """The leaf's own standalone emitted text (composition is tested, not the leaf)."""
    return str(build(node))


def model(node, leaf_mode='own'):
    """Value-level model. Children are evaluated left to right, exactly like build().

    leaf_mode 'own': leaves contribute their own standalone emitted text (C02 and friends)
    leaf_mode 'escape': str literals contribute re.escape(s) (C01)
    """
    k = node[0]
    if k == 'lit':
        s = node[1]
        if s == '':
            return EMPTY
        ref = re.escape(s) if leaf_mode == 'escape' else leaf_text_own(node)
        return M(ref, lo=len(s), hi=len(s))
    if k == 'cls':
        try:
            cs.model(node[1])
        except cs.Raises as e:
            raise Expect(e.names, 'class construction')
        except cs.Unspecified as e:
            raise Unspec(str(e))
        return M(leaf_text_own(node), lo=1, hi=1)
    if k == 'tok':
        return M(leaf_text_own(node), lo=1, hi=1)
    if k == 'empty':
        return EMPTY
    if k == 'wb':
        return M('\\b')
    if k == 'nwb':
        return M('\\B')
    if k == 'cat':
        return m_concat([model(x, leaf_mode) for x in node[2]])
    if k == 'alt':
        parts = [model(x, leaf_mode) for x in node[2]]
        if not parts:
            return EMPTY
        if node[1] == 'method_left':
            return m_either(parts[::-1], 'reversed')
        return m_either(parts, 'same')
    if k == 'enc':
        x = model(node[2], leaf_mode)
        es = [model(e, leaf_mode) for e in node[3]]
        for e in es:
            x = m_enclose(x, e)
        return x
    if k == 'q':
        kind, sp, xn, n, m, greedy = node[1:7]
        x = model(xn, leaf_mode)
        if sp in ('mul', 'rmul'):
            kind = 'exactly'
        return m_quant(x, kind, sp, n, m, greedy)
    if k == 'grp':
        return m_group(model(node[2], leaf_mode), node[3])
    if k == 'cap':
        return m_capture(model(node[2], leaf_mode), node[3])
    if k == 'anchor':
        return m_anchor(model(node[3], leaf_mode), node[1])
    if k == 'look':
        x = model(node[3], leaf_mode)
        as_ = [model(a, leaf_mode) for a in node[4]]
        if not as_:
            raise Expect(['NotEnoughArgumentsException'], 'lookaround without assertion pattern')
        for a in as_:
            x = m_look(x, node[1], a)
        return x
    if k == 'bref':
        ref = node[1]
        return M(f'\\{ref}' if isinstance(ref, int) else f'(?P={ref})', lo=0, hi=None, wunspec=True, nops=1)
    if k == 'cond':
        x = model(node[2], leaf_mode)
        y = model(node[3], leaf_mode) if node[3] is not None else None
        yes = '' if x.empty else _w(x.ref)
        no = '' if y is None else ('|' + ('' if y.empty else _w(y.ref)))
        caps = x.caps + (y.caps if y is not None else ())
        _check_dups(caps)
        return M(f'(?({node[1]}){yes}{no})', lo=0, hi=None, has_assert=x.has_assert or (y is not None and y.has_assert), caps=caps,
                 wunspec=True, nops=1 + x.nops + (y.nops if y is not None else 0))
    raise ValueError(node)


# ---------------------------------------------------------------------------------------------
# structure helpers
# ---------------------------------------------------------------------------------------------
def children(node):
    k = node[0]
    if k in ('cat', 'alt'):
        return list(node[2])
    if k == 'enc':
        return [node[2]] + list(node[3])
    if k == 'q':
        return [node[3]]
    if k in ('grp', 'cap'):
        return [node[2]]
    if k == 'anchor':
        return [node[3]]
    if k == 'look':
        return [node[3]] + list(node[4])
    if k == 'cond':
        return [node[2]] + ([node[3]] if node[3] is not None else [])
    return []


def walk(node):
    yield node
    for c in children(node):
        yield from walk(c)


def size(node):
    return sum(1 for _ in walk(node))


def depth(node):
    cs_ = children(node)
    return 1 + (max(depth(c) for c in cs_) if cs_ else 0)


def unbounded_depth(node):
    """Maximum nesting depth of quantifiers that may repeat more than once (catastrophic backtracking grows with it)."""
    d = 0
    if node[0] == 'q':
        kind, sp, n, m = node[1], node[2], node[4], node[5]
        try:
            lo, hi = canon_bounds('exactly' if sp in ('mul', 'rmul') else kind, n, m)
            d = 1 if (hi is None or (isinstance(hi, int) and hi > 1)) else 0
        except Exception:  # noqa: BLE001
            d = 1
    cs_ = children(node)
    return d + (max(unbounded_depth(c) for c in cs_) if cs_ else 0)


def quantifier_depth(node):
    """Maximum nesting depth of quantifier nodes of any kind (an Optional under a large repetition also backtracks)."""
    cs_ = children(node)
    return (1 if node[0] == 'q' else 0) + (max(quantifier_depth(c) for c in cs_) if cs_ else 0)


def max_bound(node):
    b = 0
    for n in walk(node):
        if n[0] == 'q':
            for v in (n[4], n[5]):
                if isinstance(v, int) and not isinstance(v, bool):
                    b = max(b, v)
    return b


def many_captures(n, sp='class'):
    """n capturing groups in a row: (a)(b)(c)... - backreferences with two-digit numbers need at least ten groups."""
    letters = 'abcdefghijklmnopqrstuvwxyz'
    return ['cat', sp, [['cap', 'class' if i % 2 else 'method', ['lit', letters[i % 26], bool(i % 3)], None] for i in range(n)]]


def kinds(node):
    return {n[0] if n[0] not in ('q', 'look', 'anchor') else f'{n[0]}:{n[1]}' for n in walk(node)}


def literals(node):
    return [n[1] for n in walk(node) if n[0] == 'lit']


# ---------------------------------------------------------------------------------------------
# witnesses and subject texts (a pure function of the tree and an integer seed)
# ---------------------------------------------------------------------------------------------
_CAND = None
_MEMBER_CACHE = {}


def class_members(node, limit=4):
    key = repr(node)
    if key in _MEMBER_CACHE:
        return _MEMBER_CACHE[key]
    global _CAND
    if _CAND is None:
        _CAND = [chr(c) for c in range(32, 127)] + list('\n\t\r\x0b\x0c\x00äßΩжあ한א€٣\U0001F600')
    out = []
    try:
        rx = re.compile(str(build(node)), FLAGS)
        extra = [a[1] for a in _cexpr_chars(node[1])]
        for c in extra + _CAND:
            if len(c) == 1 and rx.fullmatch(c) and c not in out:
                out.append(c)
                if len(out) >= limit + 6:
                    break
    except Exception:
        pass
    _MEMBER_CACHE[key] = out
    return out


def _cexpr_chars(e):
    out = []
    if e[0] == 'c':
        out.append(e)
    elif e[0] == 't':
        out.append(['c', cs.TOKENS[e[1]]])
    elif e[0] in ('from', 'butfrom'):
        for a in e[1]:
            out.extend(_cexpr_chars(a))
    elif e[0] in ('between', 'butbetween', 'or', 'sub'):
        out.extend(_cexpr_chars(e[1]))
        out.extend(_cexpr_chars(e[2]))
    elif e[0] == 'inv':
        out.extend(_cexpr_chars(e[1]))
    return out


def witnesses(node, rng, k=3):
    """Up to k strings (with the lookaround context they need) that `node` plausibly matches."""
    t = node[0]
    if t == 'lit':
        return [node[1]]
    if t == 'cls':
        ms = class_members(node)
        if not ms:
            return ['']
        return rng.sample(ms, min(k, len(ms)))
    if t == 'tok':
        return [cs.TOKENS[node[1]]]
    if t in ('empty', 'wb', 'nwb'):
        return ['']
    if t == 'cat':
        subs = [witnesses(x, rng, k) for x in node[2]]
        return [''.join(rng.choice(s) for s in subs) for _ in range(k)] if subs else ['']
    if t == 'alt':
        out = []
        for x in node[2]:
            out.extend(witnesses(x, rng, 2))
        rng.shuffle(out)
        return out[:max(k, len(node[2]))] or ['']
    if t == 'enc':
        out = witnesses(node[2], rng, k)
        for e in node[3]:
            ws = witnesses(e, rng, 2)
            out = [rng.choice(ws) + o + rng.choice(ws) for o in out]
        return out
    if t == 'q':
        kind, sp, x, n, m = node[1:6]
        if sp in ('mul', 'rmul'):
            kind = 'exactly'
        try:
            lo, hi = canon_bounds(kind, n, m)
            lo = lo if _is_int(lo) and 0 <= lo <= 6 else 1
            hi = hi if _is_int(hi) and 0 <= hi <= 6 else lo + 2
        except Exception:
            lo, hi = 1, 2
        ws = witnesses(x, rng, 3)
        counts = sorted({lo, min(lo + 1, hi), hi, max(lo - 1, 0), hi + 1})
        out = [''.join(rng.choice(ws) for _ in range(c)) for c in counts]
        rng.shuffle(out)
        return out[:k + 1]
    if t in ('grp', 'cap'):
        ws = witnesses(node[2], rng, k)
        if t == 'grp' and node[3]:
            ws = list(dict.fromkeys(ws + [w.swapcase() for w in ws]))[:2 * k + 2]
        return ws
    if t == 'anchor':
        return witnesses(node[3], rng, k)
    if t == 'look':
        kind = node[1]
        out = witnesses(node[3], rng, k)
        for a in node[4]:
            ws = witnesses(a, rng, 2)
            if kind in ('fb', 'nfb'):
                out = [o + rng.choice(ws) for o in out] + (out if kind == 'nfb' else [])
            elif kind in ('pb', 'npb'):
                out = [rng.choice(ws) + o for o in out] + (out if kind == 'npb' else [])
            else:
                out = [rng.choice(ws) + o + rng.choice(ws) for o in out] + (out if kind == 'neb' else [])
        return out[:k + 2]
    if t == 'cond':
        out = witnesses(node[2], rng, 2)
        if node[3] is not None:
            out += witnesses(node[3], rng, 2)
        return out
    return ['']


CONTEXTS = ['', ' ', '\n', 'a', '1', '-', '_', 'Z']


def _mutations(w, rng):
    out = []
    if w:
        i = rng.randrange(len(w))
        out.append(w[:i] + w[i + 1:])
        out.append(w[:i] + w[i] + w[i:])
        out.append(w[:i] + w[i].swapcase() + w[i + 1:])
        out.append(w[:i] + rng.choice('aZ0 .\n-(') + w[i + 1:])
    return out


def texts(node, tseed, limit=28, maxlen=None):
    """Subject texts targeted at this tree: witnesses of the tree and of every sub-tree, sibling
    concatenations, one-character mutations, each embedded in a small context."""
    if maxlen is None:      # wide patterns need room for a whole witness, small ones stay small
        n = size(node)
        maxlen = 24 if n < 24 else min(800, 8 * n)
    rng = random.Random(tseed)
    pool = []
    top = witnesses(node, rng, 4)
    pool.extend(top)
    subs = [n for n in walk(node) if n is not node]
    rng.shuffle(subs)
    sub_ws = []
    for n in subs[:8]:
        sub_ws.extend(witnesses(n, rng, 2))
    pool.extend(sub_ws)
    for _ in range(6):
        if len(sub_ws) >= 2:
            pool.append(rng.choice(sub_ws) + rng.choice(sub_ws))
    for w in list(top) + sub_ws[:4]:
        pool.extend(_mutations(w, rng))
    pool.extend(w + w for w in top[:2])
    out, seen = [], set()
    for w in pool:
        pre, suf = rng.choice(CONTEXTS), rng.choice(CONTEXTS)
        for t in (w, pre + w + suf):
            t = t[:maxlen]
            if t not in seen:
                seen.add(t)
                out.append(t)
    if '' not in seen:
        out.append('')
    head = out[:len(top) * 2]
    tail = out[len(top) * 2:]
    rng.shuffle(tail)
    return (head + tail)[:limit]


# ---------------------------------------------------------------------------------------------
# observation / equivalence
# ---------------------------------------------------------------------------------------------
def observe(rx, text):
    return ([(m.span(), m.groups()) for m in rx.finditer(text)], rx.fullmatch(text) is not None)


def equivalent(rx_a, rx_b, txts):
    """None when the two compiled patterns agree on all texts and on group structure, else a description."""
    if rx_a.groups != rx_b.groups:
        return f'number of capturing groups {rx_a.groups} vs {rx_b.groups}'
    if dict(rx_a.groupindex) != dict(rx_b.groupindex):
        return f'group names {dict(rx_a.groupindex)} vs {dict(rx_b.groupindex)}'
    for t in txts:
        oa, ob = observe(rx_a, t), observe(rx_b, t)
        if oa != ob:
            return f'on text {t!r}: {oa} vs {ob}'
    return None


# ---------------------------------------------------------------------------------------------
# Hypothesis strategies
# ---------------------------------------------------------------------------------------------
META = list('\\^$()[]{}?+*.|/-')
FRAGMENTS = ['(?:', '(?P<n>', '(?=', '(?<!', '\\A', '\\Z', '\\b', '\\d', '\\1', '[a-z]', '{2,3}', 'a|b',
             '(?i:', '?:', '(a)', '[^', '\\\\', '$', 'a$', '\\[', ')(', '{,2}', '{3}', '(?(n)', '(?P=n)', '\\n', '\\',
             # escape sequences *spelled out* as text (what one greps source code for): any display / re-parsing step that
             # rewrites them changes a literal
             '\\x0c', '\\x07', '\\x0b', '\\x00', '\\0', '\\07', '\\f', '\\v', '\\a', '\\t', '\\r', '\\e', '\\u000c', '\\N{DASH}',
             '\\g<1>', '\\Q', '\\E', '(?#', '(?!', '(?<=', '(?>', '(?P>', '!', '=!', '<!', '\x007', '\x000', '>', '<n>', 'a>b']

ALL_FEATURES = ('cat', 'alt', 'enc', 'q', 'grp', 'cap', 'anchor', 'look', 'cls', 'tok', 'empty', 'wb',
                'meta', 'uni', 'ws', 'frag', 'strarg')


# characters with surprising properties: NFC-unstable singletons, combining marks, noncharacters, BOM, separators that are
# not \n, invisible / bidi controls, digits that are isdigit() but not isdecimal() (and vice versa), case-mapping oddities,
# astral and jamo code points, the first and last code points
SPECIAL_UNI = list('\u2126\u212a\u212b\u037e\u0387\u0340\u0343\u1f71\u2000\uf900\ufb1d'
                   '\u0301\u0308\u200d\ufe0f'
                   '\ufdd0\ufdef\ufffe\uffff\U0001fffe\U0010ffff'
                   '\ufeff\x85\u2028\u2029\u200b\u200e\u202e\xad\xa0\x1c\x1f'
                   '\xb2\xb3\xb9\u2070\u2080\u2460\u0663\u0966\U0001d7d8\u0660\u2155'
                   '\xdf\u1e9e\u01c5\u0130\u0131\u017f\ufb01\u03a3\u03c2\xb5'
                   '\U0001F600\U00010000\u1100\u1161\x00\x7f\x80')


def char_strategy(features):
    from hypothesis import strategies as st
    groups = [st.sampled_from(list('abcxyzABZ019_'))] * 2
    if 'meta' in features:
        groups += [st.sampled_from(META)] * 5 + [st.just('\\')]     # the backslash is the most dangerous character: extra weight
    if 'ws' in features:
        groups += [st.sampled_from(list('\n\t\r\x0b\x0c \x00\x7f'))]
    groups += [st.sampled_from(list('\'"#<>=!:&~,P%@;`'))]
    if 'uni' in features:
        groups += [st.characters(exclude_categories=['Cs']), st.sampled_from(list('äßΩж한א€٣\u2028\U0001F600ǅİ')), st.sampled_from(SPECIAL_UNI)]
    return st.one_of(*groups)


def literal_strategy(features, min_size=0, max_size=6, long=True):
    """Mostly short literals (many small cases), plus runs of one repeated metacharacter / backslash runs and, rarely,
    long literals (17-40 characters): defects that need a *count* of special characters are otherwise out of reach."""
    from hypothesis import strategies as st
    ch = char_strategy(features)
    plain = st.lists(ch, min_size=min_size, max_size=max_size).map(''.join)
    if long and 'meta' in features:
        run = st.tuples(st.lists(ch, max_size=2).map(''.join), st.sampled_from(META), st.integers(2, 4),
                        st.lists(ch, max_size=1).map(''.join)).map(lambda t: t[0] + t[1] * t[2] + t[3])
        longer = st.lists(ch, min_size=17, max_size=40).map(''.join)
        longrun = st.tuples(st.sampled_from(META), st.integers(17, 24)).map(lambda t: t[0] * t[1])
        plain = st.one_of(plain, plain, plain, plain, plain, plain, run, run, longer, longrun)
    if 'frag' not in features:
        return plain
    frag = st.tuples(st.lists(ch, max_size=2).map(''.join), st.sampled_from(FRAGMENTS),
                     st.lists(ch, max_size=2).map(''.join)).map(''.join)
    return st.one_of(plain, plain, plain, frag)


NAMED_CLASSES = ['Any', 'AnyLetter', 'AnyButLetter', 'AnyLowercaseLetter', 'AnyButLowercaseLetter',
                 'AnyUppercaseLetter', 'AnyButUppercaseLetter', 'AnyDigit', 'AnyButDigit', 'AnyPunctuation',
                 'AnyButPunctuation', 'AnyWhitespace', 'AnyButWhitespace', 'AnyGermanLetter', 'AnyGreekLetter']


def simple_class_strategy(features):
    """Valid class leaves (class defects are C06/C07's business; here they are just operands)."""
    from hypothesis import strategies as st
    safe = st.sampled_from(list('abcxyzABZ019_ ,;:!#%&<>=@~"\''))
    risky = st.sampled_from(list('?*+{}().|$^-][\\/\\'))
    c = st.one_of(safe, safe, risky, risky, st.sampled_from(list('\n\r\t\x0b\x0c\x00'))) if 'meta' in features else safe
    named = st.sampled_from(NAMED_CLASSES).map(lambda n: ['named', n])
    word = st.booleans().map(lambda g: ['word', g])
    frm = st.lists(c, min_size=1, max_size=4, unique=True).map(lambda xs: ['from', [['c', x] for x in xs]])
    bfrm = st.lists(c, min_size=1, max_size=3, unique=True).map(lambda xs: ['butfrom', [['c', x] for x in xs]])
    btw = st.sampled_from([('a', 'f'), ('0', '5'), ('A', 'z'), ('!', '/'), ('*', '?'), ('(', '+')]).map(
        lambda p: ['between', ['c', p[0]], ['c', p[1]]])
    return st.one_of(named, named, word, frm, frm, bfrm, btw).map(lambda e: ['cls', e])


def leaf_strategy(features):
    from hypothesis import strategies as st
    lit = st.tuples(literal_strategy(features, 1), st.sampled_from([True, True, False, False, 'sub']) if 'strarg' in features else st.just(False)).map(
        lambda t: ['lit', t[0], t[1]])
    opts = [lit, lit, lit]
    if 'cls' in features:
        opts.append(simple_class_strategy(features))
    if 'tok' in features:
        opts.append(st.sampled_from(sorted(cs.TOKENS)).map(lambda n: ['tok', n]))
    if 'empty' in features:
        opts.append(st.integers(0, len(EMPTY_SPELLINGS) - 1).map(lambda i: ['empty', i]))
    if 'wb' in features:
        opts.append(st.sampled_from([['wb'], ['nwb']]))
    return st.one_of(*opts)


NAMES = ['n', 'g1', '_x', 'Name', 'a', 'k2', 'a\u00f1o', 'gr\u00f6\u00dfe', 'n_\u04361']


def tree_strategy(features=ALL_FEATURES, max_leaves=6, look_kinds=('fb', 'pb', 'eb', 'nfb', 'npb', 'neb'), leaf=None):
    """Recursive strategy over expression trees (construction, no filtering)."""
    from hypothesis import strategies as st
    features = set(features)
    leaf = leaf if leaf is not None else leaf_strategy(features)
    small = st.one_of(st.integers(0, 4), st.integers(0, 4), st.integers(0, 4), st.integers(0, 4),
                      st.sampled_from([5, 9, 10, 11, 16, 64, 99, 100, 255, 256]))   # mostly tiny bounds, rarely large ones

    def extend(child):
        opts = []
        kids = st.lists(child, min_size=2, max_size=3)
        if 'cat' in features:
            opts.append(st.tuples(st.sampled_from(['class', 'method', 'method_left', 'op']), kids).map(
                lambda t: ['cat', t[0], t[1]]))
        if 'alt' in features:
            opts.append(st.tuples(st.sampled_from(['class', 'method', 'method_left']), kids).map(
                lambda t: ['alt', t[0], t[1]]))
        if 'enc' in features:
            opts.append(st.tuples(st.sampled_from(['class', 'method']), child, st.lists(child, min_size=1, max_size=2)).map(
                lambda t: ['enc', t[0], t[1], t[2]]))
        if 'q' in features:
            def mk_q(t):
                kind, sp, x, n, m, greedy = t
                if kind == 'range' and m is not None and m < n:
                    n, m = m, n
                if sp in ('mul', 'rmul'):
                    kind = 'exactly'
                return ['q', kind, sp, x, n, m, greedy]
            opts.append(st.tuples(st.sampled_from(['opt', 'star', 'plus', 'exactly', 'atleast', 'atmost', 'range', 'range']),
                                  st.sampled_from(['class', 'method', 'class', 'method', 'mul', 'rmul']), child, small,
                                  st.one_of(st.none(), small), st.booleans()).map(mk_q))
        if 'grp' in features:
            opts.append(st.tuples(st.sampled_from(['class', 'method']), child, st.booleans()).map(
                lambda t: ['grp', t[0], t[1], t[2]]))
        if 'cap' in features:
            opts.append(st.tuples(st.sampled_from(['class', 'method']), child,
                                  st.one_of(st.none(), st.sampled_from(NAMES))).map(
                lambda t: ['cap', t[0], t[1], t[2]]))
        if 'anchor' in features:
            opts.append(st.tuples(st.sampled_from(['start', 'end', 'lstart', 'lend']),
                                  st.sampled_from(['class', 'method']), child).map(
                lambda t: ['anchor', t[0], t[1], t[2]]))
        if 'look' in features:
            opts.append(st.tuples(st.sampled_from(list(look_kinds)),
                                  st.sampled_from(['class', 'method']), child,
                                  st.lists(child, min_size=1, max_size=2)).map(
                lambda t: ['look', t[0], t[1], t[2], t[3]]))
        return st.one_of(*opts) if opts else child

    return st.recursive(leaf, extend, max_leaves=max_leaves).map(uniquify_names)


def uniquify_names(node):
    """Group names must be unique within a tree (duplicates are the user's error)."""
    seen = {}

    def go(n):
        if n[0] == 'cap' and n[3] is not None:
            name = n[3]
            c = seen.get(name, 0)
            seen[name] = c + 1
            n = list(n)
            if c:
                n[3] = f'{name}_{c}'
        out = list(n)
        k = n[0]
        if k in ('cat', 'alt'):
            out[2] = [go(x) for x in n[2]]
        elif k == 'enc':
            out[2] = go(n[2])
            out[3] = [go(x) for x in n[3]]
        elif k == 'q':
            out[3] = go(n[3])
        elif k in ('grp', 'cap'):
            out[2] = go(n[2])
        elif k == 'anchor':
            out[3] = go(n[3])
        elif k == 'look':
            out[3] = go(n[3])
            out[4] = [go(x) for x in n[4]]
        elif k == 'cond':
            out[2] = go(n[2])
            out[3] = go(n[3]) if n[3] is not None else None
        return out
    return go(node)


def swarm_features(seed, shard_index):
    """Swarm testing: shard 0 has every feature, others a seed-derived random subset."""
    if shard_index == 0:
        return list(ALL_FEATURES)
    rng = random.Random(seed * 1000003 + shard_index)
    feats = [f for f in ALL_FEATURES if rng.random() < 0.65]
    if not any(f in feats for f in ('cat', 'alt', 'q', 'grp', 'cap')):
        feats.append(rng.choice(['cat', 'alt', 'q']))
    return feats


def with_reference(tree, refspec, leaf_mode='own'):
    """Append a backreference / conditional that refers to a capturing group of `tree` (closed, to its left).

    refspec = {'kind': 'bref'|'cond', 'pick': int, 'by_name': bool, 'then': tree, 'else': tree|None, 'tail': tree|None,
               'sp': concat spelling}. Returns the combined tree, or None when `tree` has no usable capture.
    A witness of the referenced group is what the reference matches again, so texts double the group's witness."""
    try:
        m = model(tree, leaf_mode)
    except (Unspec, Expect):
        return None
    except Exception:  # noqa: BLE001
        return None
    if m.empty or not m.caps:
        return None
    i = refspec['pick'] % len(m.caps)
    name = m.caps[i]
    if refspec['kind'] == 'bref':
        ref = name if (refspec['by_name'] and name is not None) else i + 1
        node = ['bref', ref]
    else:
        if name is None:
            named = [c for c in m.caps if c is not None]
            if not named:
                return None
            name = named[refspec['pick'] % len(named)]
        node = ['cond', name, refspec['then'], refspec.get('else')]
    w = refspec.get('wrap')
    if w:
        if w[0] == 'cap':
            node = ['cap', w[1], node, w[2]]
        elif w[0] == 'grp':
            node = ['grp', w[1], node, w[2]]
        elif w[0] == 'opt':
            node = ['q', 'opt', w[1], node, 0, None, w[2]]
        elif w[0] == 'rep':
            node = ['q', 'range', w[1], node, 1, 2, w[2]]
    if refspec.get('tail') is not None and refspec.get('tail_mode') == 'enclose':
        parts = [tree, ['enc', 'class' if refspec.get('sp') != 'method' else 'method', node, [refspec['tail']]]]
        return uniquify_names(['cat', refspec.get('sp', 'class'), parts])
    pre = [['lit', refspec['pre_lit'], True]] if refspec.get('pre_lit') else []
    parts = [tree] + pre + [node] + ([refspec['tail']] if refspec.get('tail') is not None else [])
    return uniquify_names(['cat', refspec.get('sp', 'class'), parts])


def refspec_strategy(features=ALL_FEATURES):
    from hypothesis import strategies as st
    small = tree_strategy([f for f in features if f not in ('cap',)], max_leaves=2)
    digits = st.sampled_from(['0', '1', '07', '9a']).map(lambda s: ['lit', s, True])
    return st.one_of(st.none(), st.none(), st.fixed_dictionaries({
        'kind': st.sampled_from(['bref', 'bref', 'cond']), 'pick': st.integers(0, 7), 'by_name': st.booleans(),
        'then': small, 'else': st.one_of(st.none(), small), 'tail': st.one_of(st.none(), small, digits, digits),
        'sp': st.sampled_from(['class', 'method', 'op', 'method_left']),
        'tail_mode': st.sampled_from(['concat', 'concat', 'concat', 'enclose']),
        'pre_lit': st.sampled_from([None, None, None, '\\', 'a\\', '\\\\', 'x', '1']),
        'wrap': st.one_of(st.none(), st.none(), st.tuples(st.sampled_from(['cap']), st.sampled_from(['class', 'method']),
                                                           st.one_of(st.none(), st.sampled_from(['w1', 'w2']))).map(list),
                          st.tuples(st.sampled_from(['grp', 'opt', 'rep']), st.sampled_from(['class', 'method']), st.booleans()).map(list))}))


WIDE_ARITIES = [17, 18, 20, 32, 33, 40, 63, 64, 65, 66, 70, 100, 129]


def wide_tree_strategy(features=ALL_FEATURES, leaf=None, arities=WIDE_ARITIES):
    """Rare-but-real shapes that small trees never reach: an n-ary Concat/Either with 17-129 leaf operands, used as an
    operand of one or two further operators (alternation, concatenation, quantifier, anchor, lookaround, capture, enclose)."""
    from hypothesis import strategies as st
    features = set(features)
    leaf = leaf if leaf is not None else leaf_strategy(features)
    sp3 = st.sampled_from(['class', 'method', 'method_left'])
    sp2 = st.sampled_from(['class', 'method'])
    wide = st.tuples(st.sampled_from(['cat', 'cat', 'alt']), sp3, st.sampled_from(arities).flatmap(
        lambda k: st.lists(leaf, min_size=k, max_size=k))).map(lambda t: [t[0], t[1] if t[0] == 'alt' or t[1] != 'x' else 'class', t[2]])
    # operands that are fine on their own but whose texts hold one half of an unbalanced delimiter pair each (inside classes)
    opener = st.lists(st.sampled_from(list('(<[{a')), min_size=2, max_size=3, unique=True).filter(lambda xs: '(' in xs).map(
        lambda xs: ['cls', ['from', [['c', x] for x in xs]]])
    closer = st.lists(st.sampled_from(list(')>]}a')), min_size=2, max_size=3, unique=True).filter(lambda xs: ')' in xs).map(
        lambda xs: ['cls', ['from', [['c', x] for x in xs]]])
    split_pair = st.tuples(sp3, st.sampled_from(['class', 'method', 'op']), wide.filter(lambda w: w[0] == 'cat'), opener, closer).map(
        lambda t: ['alt', t[0], [['cat', t[1], [t[2], t[3]]], t[4]]])
    level1 = st.one_of(
        wide, split_pair,
        st.tuples(sp3, wide, leaf).map(lambda t: ['alt', t[0], [t[1], t[2]]]),
        st.tuples(sp3, leaf, wide).map(lambda t: ['alt', t[0], [t[1], t[2]]]),
        st.tuples(sp3, wide, leaf).map(lambda t: ['cat', t[0], [t[1], t[2]]]),
    )
    small_q = st.tuples(st.sampled_from(['opt', 'star', 'plus', 'exactly', 'range']), sp2, st.integers(0, 3), st.one_of(st.none(), st.integers(3, 4)),
                        st.booleans())
    level2 = st.one_of(
        level1,
        st.tuples(sp3, level1, leaf).map(lambda t: ['cat', t[0], [t[1], t[2]]]),
        st.tuples(sp3, leaf, level1).map(lambda t: ['cat', t[0], [t[1], t[2]]]),
        st.tuples(small_q, level1).map(lambda t: ['q', t[0][0], t[0][1], t[1], t[0][2], t[0][3], t[0][4]]),
        st.tuples(st.sampled_from(['start', 'end', 'lstart', 'lend']), sp2, level1).map(lambda t: ['anchor', t[0], t[1], t[2]]),
        st.tuples(st.sampled_from(['fb', 'nfb', 'npb', 'pb']), sp2, level1, leaf).map(lambda t: ['look', t[0], t[1], t[2], [t[3]]]),
        st.tuples(sp2, level1, st.one_of(st.none(), st.sampled_from(NAMES))).map(lambda t: ['cap', t[0], t[1], t[2]]),
        st.tuples(sp2, level1, leaf).map(lambda t: ['enc', t[0], t[1], [t[2]]]),
    )
    return level2.map(uniquify_names)


DEEP_WRAPPERS = ['grp', 'grp_ci', 'cap', 'capn', 'cat_l', 'cat_r', 'alt_r', 'enc', 'opt', 'x1', 'x2']


def deep_tree_strategy(features=ALL_FEATURES, leaf=None, depths=(12, 20, 33, 64, 65, 100)):
    """Depth instead of breadth: a leaf under 12-100 unary wrappers (groups, captures, concatenation / alternation with a
    literal on one side, enclose, optional, fixed repetition), the wrapper sequence being a drawn cycle of 1-4 kinds.
    At most four quantifier levels (nested repetition makes re itself exponential; that would only cost time)."""
    from hypothesis import strategies as st
    leaf = leaf if leaf is not None else leaf_strategy(set(features))
    sp2 = st.sampled_from(['class', 'method'])

    def build_deep(t):
        x, cycle, depth, sp, word = t
        nq = 0
        for i in range(depth):
            w = cycle[i % len(cycle)]
            if w in ('opt', 'x1', 'x2'):
                nq += 1
                if nq > 4:
                    w = 'grp'
            lit = ['lit', word + str(i % 7), bool(i % 2)]
            if w == 'grp':
                x = ['grp', sp, x, False]
            elif w == 'grp_ci':
                x = ['grp', sp, x, True]
            elif w == 'cap':
                x = ['cap', sp, x, None]
            elif w == 'capn':
                x = ['cap', sp, x, f'd{i}']
            elif w == 'cat_l':
                x = ['cat', sp, [lit, x]] if sp == 'class' else ['cat', 'method_left', [lit, x]]
            elif w == 'cat_r':
                x = ['cat', sp, [x, lit]]
            elif w == 'alt_r':
                x = ['alt', sp, [x, lit]]
            elif w == 'enc':
                x = ['enc', sp, x, [lit]]
            elif w == 'opt':
                x = ['q', 'opt', sp, x, 0, None, bool(i % 2)]
            elif w == 'x1':
                x = ['q', 'exactly', sp, x, 1, None, True]
            else:
                x = ['q', 'exactly', sp, x, 2, None, True]
        return x
    return st.tuples(leaf, st.lists(st.sampled_from(DEEP_WRAPPERS), min_size=1, max_size=4), st.sampled_from(list(depths)), sp2,
                     st.sampled_from(['w', '(', '|', '\\', '1', ')'])).map(build_deep)


def many_captures_case(n, ref, tail_digit, sp='class'):
    """(a)(b)...(n groups) + Backreference(ref) + 'digit...': two-digit group numbers next to literal digits."""
    parts = [many_captures(n, sp), ['bref', ref]]
    if tail_digit is not None:
        parts.append(['lit', tail_digit, True])
    return ['cat', sp, parts]


def with_child(node, i, new):
    """Copy of `node` whose i-th child (in the order of children()) is `new`."""
    n = list(node)
    k = n[0]
    if k in ('cat', 'alt'):
        n[2] = list(n[2])
        n[2][i] = new
    elif k == 'enc':
        if i == 0:
            n[2] = new
        else:
            n[3] = list(n[3])
            n[3][i - 1] = new
    elif k == 'q':
        n[3] = new
    elif k in ('grp', 'cap'):
        n[2] = new
    elif k == 'anchor':
        n[3] = new
    elif k == 'look':
        if i == 0:
            n[3] = new
        else:
            n[4] = list(n[4])
            n[4][i - 1] = new
    elif k == 'cond':
        n[2 + i] = new
    else:
        raise ValueError(node)
    return n


def paths(node, prefix=()):
    """Pre-order list of (path, node); a path is a tuple of child indices."""
    out = [(prefix, node)]
    for i, c in enumerate(children(node)):
        out.extend(paths(c, prefix + (i,)))
    return out


def replace_at(node, path, fn):
    if not path:
        return fn(node)
    c = children(node)[path[0]]
    return with_child(node, path[0], replace_at(c, path[1:], fn))


def bracket_heavy_leaf(features=ALL_FEATURES):
    """Leaves for wide patterns: mostly bracket classes, many of them holding unbalanced parentheses, '|' or brackets
    (what the library's own text-based type inference has to see through), plus ordinary leaves."""
    from hypothesis import strategies as st
    ch = st.sampled_from(list('()|<>[]{}a()|\n\r!'))      # '\n': the one character the dot does not match without DOTALL
    frm = st.lists(ch, min_size=1, max_size=3, unique=True).map(lambda xs: ['cls', ['from', [['c', x] for x in xs]]])
    bfrm = st.lists(ch, min_size=1, max_size=2, unique=True).map(lambda xs: ['cls', ['butfrom', [['c', x] for x in xs]]])
    named = st.sampled_from(['AnyLetter', 'AnyDigit', 'AnyButDigit', 'AnyPunctuation', 'AnyUppercaseLetter']).map(lambda n: ['cls', ['named', n]])
    return st.one_of(frm, frm, bfrm, named, named, leaf_strategy(features))


ENTANGLE_SEPS = ['|', '|', '', '\\|', ')', '(', '.', '-', '|(', ')|', '\n']


def entangle(tree, spec):
    """Make one literal of the tree a composite of two literals of the same tree (`a` + separator + `b`, separator mostly '|'):
    spec = [target, a, b, separator index]. Text-level shortcuts that split, compare or de-duplicate operand *texts* confuse a
    literal 'yes|no' with the alternatives 'yes' and 'no' next to it. Returns the tree unchanged when it has < 2 literals."""
    if not spec:
        return tree
    lits = [(path, n) for path, n in paths(tree) if n[0] == 'lit' and n[1] != '']
    if len(lits) < 2:
        return tree
    t, a, b, k = spec
    target = lits[t % len(lits)]
    text = lits[a % len(lits)][1][1] + ENTANGLE_SEPS[k % len(ENTANGLE_SEPS)] + lits[b % len(lits)][1][1]
    return replace_at(tree, target[0], lambda n: ['lit', text[:60], n[2]])


def entangle_strategy():
    from hypothesis import strategies as st
    return st.one_of(st.none(), st.none(), st.none(), st.tuples(st.integers(0, 9), st.integers(0, 9), st.integers(0, 9), st.integers(0, 10)).map(list))


def hostile_tree(max_leaves=4):
    """Small Concat/Either trees whose leaves are what a text-based reading of the emitted pattern most easily
    misreads: literal backslashes (token or string) right in front of bracket classes, classes listing parentheses /
    brackets / '|', and literals that are single metacharacters."""
    from hypothesis import strategies as st
    bs = st.sampled_from([['tok', 'Backslash'], ['lit', '\\', True], ['lit', '\\', False], ['lit', 'a\\', True], ['lit', '\\\\', True]])
    meta = st.sampled_from(list('()[]|{}$^.*+?-!<>=:#P\n')).map(lambda c: ['lit', c, True])
    plain = st.sampled_from(['x', 'ab', '1']).map(lambda s: ['lit', s, True])
    leaf = st.one_of(bs, bs, bracket_heavy_leaf(['meta']), bracket_heavy_leaf(['meta']), meta, plain)

    def extend(child):
        xs = st.lists(child, min_size=2, max_size=3)
        sp = st.sampled_from(['class', 'method'])
        return st.one_of(st.tuples(st.sampled_from(['class', 'method', 'op']), xs).map(lambda t: ['cat', t[0], t[1]]),
                         st.tuples(st.sampled_from(['class', 'method', 'op']), xs).map(lambda t: ['cat', t[0], t[1]]),
                         st.tuples(sp, xs).map(lambda t: ['alt', t[0], t[1]]),
                         st.tuples(sp, xs).map(lambda t: ['alt', t[0], t[1]]),
                         st.tuples(st.sampled_from(['opt', 'star', 'plus']), sp, child, st.booleans()).map(lambda t: ['q', t[0], t[1], t[2], 0, None, t[3]]),
                         st.tuples(sp, child, st.booleans()).map(lambda t: ['grp', t[0], t[1], t[2]]),
                         st.tuples(sp, child).map(lambda t: ['cap', t[0], t[1], None]))
    # two halves of an unbalanced delimiter pair in different alternatives (inside classes, possibly negated / repeated / next to a
    # raw newline), and the alternation then used as an operand: the grouping of the alternation must survive
    def half(chars, must):
        members = st.lists(st.sampled_from(list(chars)), min_size=1, max_size=3, unique=True).map(lambda xs: sorted(set(xs) | {must}))
        cls = st.tuples(members, st.booleans()).map(lambda t: ['cls', ['butfrom' if t[1] else 'from', [['c', x] for x in t[0]]]])
        return st.one_of(cls, cls.map(lambda c: ['q', 'plus', 'class', c, 0, None, True]))
    sp = st.sampled_from(['class', 'method'])
    pair = st.tuples(sp, half('(<[{a\n\n', '('), half(')>]}a\n\n', ')'), st.sampled_from(['class', 'method', 'op', 'method_left']), plain, st.integers(0, 3)).map(
        lambda t: [['cat', t[3], [['alt', t[0], [t[1], t[2]]], t[4]]], ['cat', t[3] if t[3] != 'method_left' else 'class', [t[4], ['alt', t[0], [t[1], t[2]]]]],
                   ['anchor', 'lend', 'class', ['alt', t[0], [t[1], t[2]]]], ['look', 'fb', 'class', ['alt', t[0], [t[1], t[2]]], [t[4]]]][t[5]])
    return st.one_of(*[st.recursive(leaf, extend, max_leaves=max_leaves)] * 4, pair)


def bounded_texts(tree, txts):
    """Keep re's backtracking bounded: shorter / fewer texts for nested repetition, structure-only for a large counted
    repetition over another quantifier (2^n for a failing text). A timeout is never a verdict, so this only saves time."""
    depth = unbounded_depth(tree)
    if max_bound(tree) >= 16 and (quantifier_depth(tree) >= 2 or any(n[0] == 'alt' for n in walk(tree))):
        return ['']
    if depth >= 2:
        txts = list(dict.fromkeys(t[:9] for t in txts))[:14]
        if max_bound(tree) >= 16 or depth >= 4:
            txts = list(dict.fromkeys(t[:5] for t in txts))[:5]
    return txts

"""Interval sets over code points 0..0x10FFFF, whole-range membership scan of an emitted class text,
and the model of pregex class expressions (constructors, |, -, ~) used by C06/C07 (and as leaves of
the expression DSL).

Class-expression AST (JSON-able lists):

  ['c', ch]                      a one-character str operand
  ['t', TokenName]               a pregex.core.tokens instance
  ['s', string]                  a str that is not one character (invalid operand)
  ['p', string]                  a non-token Pregex (Pregex(string)), invalid operand for algebra
  ['from', [arg...]]             AnyFrom(*args)          arg: ['c', ch] | ['t', Tok]
  ['butfrom', [arg...]]          AnyButFrom(*args)
  ['between', a, b]              AnyBetween(a, b)
  ['butbetween', a, b]           AnyButBetween(a, b)
  ['named', Name]                Name() for the named Any*/AnyBut* classes and Any
  ['word', is_global]            AnyWordChar(is_global)
  ['butword', is_global]         AnyButWordChar(is_global)
  ['or', x, y] ['sub', x, y]     x | y,  x - y   (operands: class expr, ['c'..], ['t'..], ['s'..], ['p'..])
  ['inv', x]                     ~x
"""
import re
import string
import sys

MAXCP = 0x10FFFF
FLAGS = re.MULTILINE | re.DOTALL

# ---------------------------------------------------------------------------------------------
# interval sets: sorted tuple of disjoint, non-adjacent closed intervals (lo, hi)
# ---------------------------------------------------------------------------------------------


def norm(ivs):
    out = []
    for lo, hi in sorted(ivs):
        if lo > hi:
            continue
        if out and lo <= out[-1][1] + 1:
            if hi > out[-1][1]:
                out[-1] = (out[-1][0], hi)
        else:
            out.append((lo, hi))
    return tuple(out)


def from_chars(chars):
    return norm((ord(c), ord(c)) for c in chars)


def union(a, b):
    return norm(tuple(a) + tuple(b))


def complement(a):
    out, prev = [], 0
    for lo, hi in a:
        if lo > prev:
            out.append((prev, lo - 1))
        prev = hi + 1
    if prev <= MAXCP:
        out.append((prev, MAXCP))
    return tuple(out)


def intersect(a, b):
    out, i, j = [], 0, 0
    while i < len(a) and j < len(b):
        lo, hi = max(a[i][0], b[j][0]), min(a[i][1], b[j][1])
        if lo <= hi:
            out.append((lo, hi))
        if a[i][1] < b[j][1]:
            i += 1
        else:
            j += 1
    return tuple(out)


def diff(a, b):
    return intersect(a, complement(b))


def size(a):
    return sum(hi - lo + 1 for lo, hi in a)


def contains(a, cp):
    for lo, hi in a:
        if lo <= cp <= hi:
            return True
    return False


def members(a, limit=8):
    out = []
    for lo, hi in a:
        for cp in (lo, hi, (lo + hi) // 2):
            if chr(cp) not in out:
                out.append(chr(cp))
        if len(out) >= limit:
            break
    return out[:limit]


def show(a, limit=6):
    def c(cp):
        return f'U+{cp:04X}'
    parts = [c(lo) if lo == hi else f'{c(lo)}-{c(hi)}' for lo, hi in a[:limit]]
    if len(a) > limit:
        parts.append(f'...(+{len(a) - limit} intervals)')
    return '{' + ', '.join(parts) + '}'


FULL = ((0, MAXCP),)

# ---------------------------------------------------------------------------------------------
# whole-range scan
# ---------------------------------------------------------------------------------------------
_ALL = None


def all_chars():
    global _ALL
    if _ALL is None:
        _ALL = ''.join(map(chr, range(MAXCP + 1)))
    return _ALL


class NotACharSet(Exception):
    """The text does not denote a set of single characters (or does not compile)."""


def scan(pattern):
    """Exact set of code points c with re.fullmatch(pattern, chr(c)), as intervals.

    Guard: the pattern must be exactly one character wide, otherwise NotACharSet.
    """
    try:
        rx = re.compile(pattern, FLAGS)
    except re.error as e:
        raise NotACharSet(f're.error: {e}')
    try:
        import re._parser as sre_parse
        w = sre_parse.parse(pattern, FLAGS).getwidth()
        if tuple(int(x) for x in w) != (1, 1):
            raise NotACharSet(f'width {tuple(int(x) for x in w)} is not (1, 1)')
    except ImportError:  # pragma: no cover
        pass
    if rx.fullmatch('') is not None:
        raise NotACharSet('matches the empty string')
    rep = re.compile(f'(?:{pattern})+', FLAGS)
    out = [(m.start(), m.end() - 1) for m in rep.finditer(all_chars())]
    return norm(out)


_UNSPEC = {}


def unicode_shorthand_extras(kinds=('d', 's', 'w')):
    r"""Code points that only the Unicode-aware \d / \s / \w (the ones named in `kinds`) add beyond their ASCII definitions."""
    key = ''.join(sorted(set(kinds)))
    if key not in _UNSPEC:
        parts = ()
        if 'd' in key:
            parts = union(parts, diff(scan(r'\d'), ((0x30, 0x39),)))
        if 's' in key:
            parts = union(parts, diff(scan(r'\s'), from_chars(' \t\n\r\x0b\x0c')))
        if 'w' in key:
            parts = union(parts, diff(scan(r'\w'), norm([(0x30, 0x39), (0x41, 0x5A), (0x5F, 0x5F), (0x61, 0x7A)])))
        _UNSPEC[key] = parts
    return _UNSPEC[key]


def shorthand_kinds(text):
    """Which of the shorthands \d \s \w (either case) occur in an emitted class text."""
    return {m.lower() for m in re.findall(r'\\([dswDSW])', text)}


# ---------------------------------------------------------------------------------------------
# documented sets of the named classes
# ---------------------------------------------------------------------------------------------
def _r(a, b):
    return (ord(a), ord(b))


LETTER = norm([_r('a', 'z'), _r('A', 'Z')])
NAMED = {
    'AnyLetter': LETTER,
    'AnyLowercaseLetter': norm([_r('a', 'z')]),
    'AnyUppercaseLetter': norm([_r('A', 'Z')]),
    'AnyDigit': norm([_r('0', '9')]),
    'AnyPunctuation': from_chars(string.punctuation),
    'AnyWhitespace': from_chars(string.whitespace),
    'AnyGermanLetter': union(LETTER, from_chars('äöüßÄÖÜẞ')),
    'AnyGreekLetter': norm([(0x386, 0x386), (0x388, 0x3CE)]),
    'AnyCyrillicLetter': norm([(0x400, 0x4FF)]),
    'AnyCJK': norm([(0x4E00, 0x9FD5)]),
    'AnyHebrewLetter': norm([(0x590, 0x5FF)]),
    'AnyKoreanLetter': norm([(0x3131, 0x314E), (0xAC00, 0xD7A3)]),
}
# classes documented only by a name ("the Greek alphabet"): (must-match, may-match) bounds instead of one set
LOOSE = {
    'AnyGermanLetter': (union(LETTER, from_chars('äöüßÄÖÜ')), union(LETTER, from_chars('äöüßÄÖÜẞ'))),
    'AnyGreekLetter': (norm([(0x386, 0x386), (0x391, 0x3A1), (0x3A3, 0x3A9), (0x3B1, 0x3C9)]),
                       norm([(0x370, 0x386), (0x388, 0x3FF), (0x1F00, 0x1FFF)])),
    'AnyCyrillicLetter': (norm([(0x401, 0x401), (0x410, 0x44F), (0x451, 0x451)]), norm([(0x400, 0x52F)])),
    'AnyKoreanLetter': (norm([(0x3131, 0x314E), (0xAC00, 0xD7A3)]),
                        norm([(0x1100, 0x11FF), (0x3130, 0x318F), (0xAC00, 0xD7AF)])),
    'AnyCJK': (norm([(0x4E00, 0x9FD5)]), norm([(0x4E00, 0x9FFF)])),
}
WORD = norm([_r('a', 'z'), _r('A', 'Z'), _r('0', '9'), _r('_', '_')])
# classes documented in terms of a shorthand: Unicode extras are unspecified for them
SHORTHAND_NAMED = {'AnyDigit': {'d'}, 'AnyButDigit': {'d'}, 'AnyWhitespace': {'s'}, 'AnyButWhitespace': {'s'}}

TOKENS = {
    'Backslash': '\\', 'Bullet': '•', 'CarriageReturn': '\r', 'Copyright': '©',
    'Division': '÷', 'Dollar': '$', 'Euro': '€', 'FormFeed': '\f', 'Infinity': '∞',
    'Multiplication': '×', 'Newline': '\n', 'Pound': '£', 'Registered': '®',
    'Rupee': '₹', 'Space': ' ', 'Tab': '\t', 'Trademark': '™', 'VerticalTab': '\v',
    'WhiteBullet': '◦', 'Yen': '¥',
}

# ---------------------------------------------------------------------------------------------
# model
# ---------------------------------------------------------------------------------------------


class Val:
    """Model value of a class expression: polarity + the set written between the brackets."""

    def __init__(self, negated, inner, is_any=False, global_word=False, shorthand=()):
        self.negated = negated      # True: matches the complement of `inner`
        self.inner = inner          # interval set written inside [...]: matched (regular) / excluded (negated)
        self.is_any = is_any
        self.global_word = global_word   # instance of AnyWordChar/AnyButWordChar with is_global=True
        self.shorthand = set(shorthand)  # which of \d \s \w some leaf is documented through ('d', 's', 'w')

    def matched(self):
        if self.is_any:
            return FULL
        return complement(self.inner) if self.negated else self.inner


class Raises(Exception):
    def __init__(self, names, why=''):
        super().__init__(f"{'/'.join(names)}: {why}")
        self.names = tuple(names)


class Unspecified(Exception):
    pass


def _operand_char(arg):
    if arg[0] == 'c':
        return arg[1]
    if arg[0] == 't':
        return TOKENS[arg[1]]
    if arg[0] == 'pc':
        return arg[1]
    raise ValueError(arg)


def _check_ctor_arg(arg):
    """Documented argument rule of AnyFrom/AnyBetween: a string of length one or a token instance."""
    k = arg[0]
    if k == 'c':
        if len(arg[1]) != 1:
            raise Raises(['InvalidArgumentTypeException'], 'string not of length one')
        return arg[1]
    if k == 't':
        return TOKENS[arg[1]]
    if k == 'pc':
        # Pregex(ch) for one character ch: the signature says `str | Pregex`, the prose says "token instance". The code
        # accepts it and reads it as ch; the caller of model() additionally accepts the documented rejection
        # (has_plain_pregex_arg) - but never a *different* character set.
        return arg[1]
    if k == 's':
        raise Raises(['InvalidArgumentTypeException'], 'string not of length one')
    if k == 'bad':
        raise Raises(['InvalidArgumentTypeException'], 'neither string nor token')
    if k == 'p':
        # a non-token Pregex: documented as invalid when longer than a character; a one-character
        # Pregex('a') is not described by the docs at all
        if len(arg[1]) == 1:
            raise Unspecified('one-character non-token Pregex as class argument')
        raise Raises(['InvalidArgumentTypeException'], 'non-token Pregex')
    raise ValueError(arg)


def model(e, leaf_set=None):
    """Return Val, or raise Raises(names) / Unspecified.

    leaf_set: optional function(constructor-expression) -> interval set written between the brackets, used
    instead of the documented set (C07 measures its leaves, so that it tests the algebra and nothing else).
    """
    k = e[0]
    if leaf_set is not None and k in ('from', 'butfrom', 'between', 'butbetween', 'named', 'word', 'butword'):
        v = model(e)
        if not v.is_any:
            v.inner, uses_shorthand = leaf_set(e, v.negated)
            v.shorthand = set(v.shorthand) | set(uses_shorthand)
        return v
    if k in ('from', 'butfrom'):
        if len(e[1]) == 0:
            raise Raises(['NotEnoughArgumentsException'])
        chars = [_check_ctor_arg(a) for a in e[1]]
        return Val(k == 'butfrom', from_chars(chars))
    if k in ('between', 'butbetween'):
        a, b = _check_ctor_arg(e[1]), _check_ctor_arg(e[2])
        if ord(a) >= ord(b):
            raise Raises(['InvalidRangeException'])
        return Val(k == 'butbetween', ((ord(a), ord(b)),))
    if k == 'named':
        name = e[1]
        if name == 'Any':
            return Val(False, FULL, is_any=True)
        if name.startswith('AnyBut'):
            base = 'Any' + name[len('AnyBut'):]
            return Val(True, NAMED[base], shorthand=SHORTHAND_NAMED.get(base, ()))
        return Val(False, NAMED[name], shorthand=SHORTHAND_NAMED.get(name, ()))
    if k == 'word':
        return Val(False, WORD, global_word=bool(e[1]), shorthand={'w', 'd'})
    if k == 'butword':
        return Val(True, WORD, global_word=bool(e[1]), shorthand={'w', 'd'})
    if k == 'inv':
        v = model(e[1], leaf_set)
        if v.is_any:
            raise Raises(['CannotBeNegatedException'])
        # ~ of AnyWordChar(is_global) stays an (AnyBut)WordChar(is_global)
        return Val(not v.negated, v.inner, global_word=v.global_word, shorthand=v.shorthand)
    if k in ('or', 'sub'):
        exc = 'CannotBeUnionedException' if k == 'or' else 'CannotBeSubtractedException'
        xs = []
        for side in (e[1], e[2]):
            if side[0] in ('c', 't', 's', 'p'):
                xs.append(side)
            else:
                xs.append(model(side, leaf_set))
        if not isinstance(xs[0], Val) and not isinstance(xs[1], Val):
            raise ValueError('class operator without a class operand')
        cls = xs[0] if isinstance(xs[0], Val) else xs[1]
        for i in (0, 1):
            if not isinstance(xs[i], Val):
                o = xs[i]
                if o[0] in ('s', 'p'):
                    raise Raises([exc], 'operand is neither a class nor a token')
                if cls.negated:
                    raise Raises([exc], 'token operand with a negated class')
                xs[i] = Val(False, from_chars(_operand_char(o)))
        a, b = xs
        if a.negated != b.negated:
            raise Raises([exc], 'regular with negated')
        sh = set(a.shorthand) | set(b.shorthand)
        if k == 'or':
            if a.is_any or b.is_any:
                return Val(False, FULL, is_any=True)
            return Val(a.negated, union(a.inner, b.inner), shorthand=sh)
        if b.is_any:
            raise Raises(['EmptyClassException'])
        if a.is_any:
            return Val(True, b.inner, shorthand=sh)   # Any - X == ~X
        if a.global_word:
            raise Raises(['GlobalWordCharSubtractionException'])
        rest = diff(a.inner, b.inner)
        if sh:
            # code points that only the Unicode-aware shorthands add are unspecified: the result is certainly
            # non-empty when something outside that region is left, certainly empty when nothing is left and the
            # minuend has nothing inside the region, and undetermined otherwise
            u = unicode_shorthand_extras(sh)
            if not diff(rest, u):
                if intersect(a.inner, u):
                    raise Unspecified('emptiness depends on Unicode-only members of a shorthand class')
                raise Raises(['EmptyClassException'])
            return Val(a.negated, rest, shorthand=sh)
        if not rest:
            raise Raises(['EmptyClassException'])
        return Val(a.negated, rest, shorthand=sh)
    raise ValueError(e)


def has_plain_pregex_arg(e):
    """Does a constructor in `e` receive Pregex(ch), a one-character non-token Pregex?"""
    if not isinstance(e, list):
        return False
    if e and e[0] == 'pc':
        return True
    return any(has_plain_pregex_arg(x) for x in e)


# ---------------------------------------------------------------------------------------------
# build the real object
# ---------------------------------------------------------------------------------------------
def build(e):
    import pregex.core.classes as cl
    import pregex.core.tokens as tk
    from pregex.core.pre import Pregex
    k = e[0]
    if k == 'c' or k == 's':
        return e[1]
    if k == 't':
        return getattr(tk, e[1])()
    if k in ('p', 'pc'):
        return Pregex(e[1])
    if k == 'bad':
        return {'none': None, 'int': 5, 'list': ['a'], 'bytes': b'a', 'float': 1.5}[e[1]]
    if k == 'from':
        return cl.AnyFrom(*[build(a) for a in e[1]])
    if k == 'butfrom':
        return cl.AnyButFrom(*[build(a) for a in e[1]])
    if k == 'between':
        return cl.AnyBetween(build(e[1]), build(e[2]))
    if k == 'butbetween':
        return cl.AnyButBetween(build(e[1]), build(e[2]))
    if k == 'named':
        return getattr(cl, e[1])()
    if k == 'word':
        return cl.AnyWordChar(is_global=bool(e[1]))
    if k == 'butword':
        return cl.AnyButWordChar(is_global=bool(e[1]))
    if k == 'inv':
        return ~build(e[1])
    if k == 'or':
        return build(e[1]) | build(e[2])
    if k == 'sub':
        return build(e[1]) - build(e[2])
    raise ValueError(e)


def render(e):
    """Runnable Python expression for a class expression."""
    k = e[0]
    if k in ('c', 's'):
        return repr(e[1])
    if k == 't':
        return f'{e[1]}()'
    if k in ('p', 'pc'):
        return f'Pregex({e[1]!r})'
    if k == 'bad':
        return {'none': 'None', 'int': '5', 'list': "['a']", 'bytes': "b'a'", 'float': '1.5'}[e[1]]
    if k == 'from':
        return 'AnyFrom(' + ', '.join(render(a) for a in e[1]) + ')'
    if k == 'butfrom':
        return 'AnyButFrom(' + ', '.join(render(a) for a in e[1]) + ')'
    if k == 'between':
        return f'AnyBetween({render(e[1])}, {render(e[2])})'
    if k == 'butbetween':
        return f'AnyButBetween({render(e[1])}, {render(e[2])})'
    if k == 'named':
        return f'{e[1]}()'
    if k == 'word':
        return f'AnyWordChar(is_global={bool(e[1])})'
    if k == 'butword':
        return f'AnyButWordChar(is_global={bool(e[1])})'
    if k == 'inv':
        return f'~{_paren(e[1])}'
    if k == 'or':
        return f'{_paren(e[1])} | {_paren(e[2])}'
    if k == 'sub':
        return f'{_paren(e[1])} - {_paren(e[2])}'
    raise ValueError(e)


def _paren(e):
    r = render(e)
    return f'({r})' if e[0] in ('or', 'sub') else r


def n_ops(e):
    k = e[0]
    if k in ('or', 'sub'):
        return 1 + n_ops(e[1]) + n_ops(e[2])
    if k == 'inv':
        return 1 + n_ops(e[1])
    return 0


def compare(e, text, val):
    """Compare the set matched by emitted `text` with model value `val` over the whole code-point
    range (minus the unspecified Unicode-shorthand region where that applies).

    Returns None when equal, else a description of the difference. Raises NotACharSet.
    """
    got = scan(text)
    want = val.matched()
    masked = set(val.shorthand) | shorthand_kinds(text)
    if masked:
        m = unicode_shorthand_extras(masked)
        got, want = diff(got, m), diff(want, m)
    if got == want:
        return None
    extra, missing = diff(got, want), diff(want, got)
    return (f'emitted {text!r} matches {size(got)} code points, model {size(want)}; '
            f'wrongly matched {show(extra)}; wrongly rejected {show(missing)}'
            + (f' [unicode-only members of \\{"/\\".join(sorted(masked))} masked]' if masked else ''))
